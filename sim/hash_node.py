"""A client *node* of the hash cluster (C20): a fresh interpreter that builds queries and hashes them.

Started by sim/hash_cluster.py as `python hash_node.py` with PYTHONHASHSEED drawn by the
simulator; reads one JSON job on stdin, writes one JSON result list on stdout.  The job fixes
everything else the node could depend on: the simulated wall clock, the import order, the
pre-history of the process (unrelated queries built, simplifier counter advanced, registries
populated) and the builds to perform.
"""
import ast
import atexit
import base64
import json
import linecache
import os
import pickle
import shutil
import sys
import tempfile
import types


def canon(n):
    """The checker's own structural serialisation: class name, fields in _fields order (a field
    that is None where None is the class default is the same as an absent one, as in the
    language's own notion of an optional field), constants as (type name, repr).  Positions and
    every non-field attribute are ignored."""
    if isinstance(n, ast.AST):
        out = [type(n).__name__]
        for f in n._fields:
            if not hasattr(n, f):
                if f == "ctx":  # ast.Name(id=..) built without a context: every expression
                    out.append(["ctx", ["Load"]])  # node of a query is read, never stored to
                continue
            v = getattr(n, f)
            if v is None and getattr(type(n), f, ...) is None:
                continue
            out.append([f, canon(v)])
        return out
    if isinstance(n, list):
        return ["list"] + [canon(x) for x in n]
    return ["const", type(n).__name__, repr(n)]


def plain(n):
    "Structural copy: fields only (what survives serialisation of a query)."
    if isinstance(n, ast.AST):
        return type(n)(**{f: plain(getattr(n, f)) for f in n._fields if hasattr(n, f)})
    if isinstance(n, list):
        return [plain(x) for x in n]
    return n


def _rereadable(a):
    "unparse/parse gives back the same tree unless a constant is negative (-1 is read as -(1))"
    import math

    for n in ast.walk(a):
        if isinstance(n, ast.Constant) and isinstance(n.value, (int, float, complex)) \
                and not isinstance(n.value, bool):
            v = n.value
            if isinstance(v, complex) or v < 0 or (isinstance(v, float) and (
                    math.copysign(1.0, v) < 0 or v != v)):
                return False
    return True


LAYOUTS = 4
_SLOT_WRITES = [0]
_SCRATCH = []


def _scratch():
    if not _SCRATCH:
        base = os.environ.get("TMPDIR") or tempfile.gettempdir()
        _SCRATCH.append(tempfile.mkdtemp(prefix="verif-node-", dir=base))
        atexit.register(shutil.rmtree, _SCRATCH[0], ignore_errors=True)
    return _SCRATCH[0]



def lift_constants(lam_text, prefix):
    """Rewrite literal constants of a lambda as references to module globals (returned as
    definitions): the query the user means is unchanged, but the library now has to *capture*
    the values instead of parsing them."""
    tree = ast.parse(lam_text, mode="eval")
    defs = {}

    class L(ast.NodeTransformer):
        def visit_Constant(self, n):
            if type(n.value) in (int, float, bool, str):
                name = f"{prefix}{len(defs)}"
                defs[name] = repr(n.value)
                return ast.copy_location(ast.Name(name, ast.Load()), n)
            return n

        def visit_Subscript(self, n):
            n.value = self.visit(n.value)  # keep constant indices literal
            return n

        def visit_Dict(self, n):
            n.values = [self.visit(v) for v in n.values]  # keys stay literal
            return n

    new = ast.fix_missing_locations(L().visit(tree))
    return ast.unparse(new), defs


def render(stages, layout, tag, lift=False, as_def=False):
    """Client program text for building a chain from Python callables, in one of several layouts;
    with as_def the callables are one-line function definitions instead of lambdas."""
    ind = ["    ", "        ", "  ", "    "][layout % LAYOUTS]
    out = []
    if lift:
        lifted = []
        for i, (op, lam) in enumerate(stages):
            text, defs = lift_constants(lam, f"K{tag}_{i}_")
            for k, v in defs.items():
                out.append(f"{k} = {v}\n")
            lifted.append((op, text))
        stages = lifted
    out.append(f"def build_{tag}(ds):\n")
    if layout % LAYOUTS == 3:
        out.append(f"{ind}# built by node\n\n")
    if as_def:
        named = []
        for i, (op, lam) in enumerate(stages):
            t = ast.parse(lam, mode="eval").body
            out.append(f"{ind}def st_{i}({ast.unparse(t.args)}):\n")
            if (layout + i) % 3 == 0:
                out.append(f'{ind}    "stage {i}"\n')
            out.append(f"{ind}    return {ast.unparse(t.body)}\n")
            named.append((op, f"st_{i}"))
        stages = named
    out.append(f"{ind}return (ds\n")
    for i, (op, lam) in enumerate(stages):
        cmt = "  # stage %d (lambda x: [x])" % i if layout % 2 else ""
        if layout % LAYOUTS == 2:
            out.append(f"{ind}    .{op}(\n{ind}        {lam}\n{ind}    ){cmt}\n")
        else:
            out.append(f"{ind}    .{op}({lam}){cmt}\n")
    out.append(f"{ind})\n")
    return "".join(out)


def main():
    job = json.loads(sys.stdin.read())
    sys.path.insert(0, job["src"])
    import time

    clock = [float(job["epoch"])]
    time.time = lambda: clock[0]
    time.time_ns = lambda: int(clock[0] * 1e9)
    time.monotonic = lambda: clock[0]
    time.perf_counter = lambda: clock[0]
    import importlib
    import logging

    logging.disable(logging.CRITICAL)
    if job.get("log_level"):
        # the application configured logging: records are really formatted, nothing is kept
        class Sink(logging.Handler):
            def emit(self, record):
                self.format(record)

        logging.disable(logging.NOTSET)
        root = logging.getLogger()
        root.handlers[:] = [Sink()]
        root.setLevel(getattr(logging, job["log_level"]))
    for modname in job["import_order"]:
        importlib.import_module(modname)
    import func_adl
    from func_adl import EventDataset
    from func_adl.ast.ast_hash import calc_ast_hash
    from func_adl.ast.func_adl_ast_utils import change_extension_functions_to_calls
    from func_adl.ast.function_simplifier import simplify_chained_calls

    class DS(EventDataset):
        def __init__(self, name):
            super().__init__()
            self.name = name
            self.seen = []

        async def execute_result_async(self, a, title=None):
            self.seen.append(a)
            return a

    # pre-history of this process
    junk = []
    for i in range(job["prehistory"]):
        d = DS(f"pre{i}")
        s = d.Select(f"lambda e: e.v{i % 7} + {i}").Where("lambda q: q > 1")
        junk.append(s)
        if i % 3 == 0:
            simplify_chained_calls().visit(change_extension_functions_to_calls(
                ast.parse("Select(Select(ds, lambda e: e.x), lambda y: y + 1)", mode="eval").body))
        if i % 5 == 0:
            calc_ast_hash(s.query_ast)
    datasets = [DS(f"d{i}") for i in range(3)]
    out = []
    mt_groups = {}  # group -> [(record, ast)]: hashed once more, concurrently, at the end
    sid = None
    if job.get("simid") is not None:
        import random

        sys.path.insert(1, os.path.dirname(os.path.dirname(os.path.abspath(__file__))))
        from sim.simid import SimId

        sid = SimId(random.Random(job["simid"]))
        sid.install()
    reused0 = 0
    for b in job["builds"]:
        rec = {"id": b["id"], "stage": "build"}
        try:
            if "pickled" in b:
                a = pickle.loads(base64.b64decode(b["pickled"]))
            else:
                a = build(b, datasets, func_adl, simplify_chained_calls,
                          change_extension_functions_to_calls)
            if b.get("depths"):
                # a long chain hashed with more or less stack left: running out of stack may
                # make the hash unobtainable (RecursionError), it must never make it different
                normal = sys.getrecursionlimit()

                def at_depth(d):
                    return calc_ast_hash(a) if d == 0 else at_depth(d - 1)

                got = []
                for d in b["depths"]:
                    sys.setrecursionlimit(b.get("limit", 1000))
                    try:
                        got.append(at_depth(d))
                    except RecursionError:
                        got.append(None)
                    finally:
                        sys.setrecursionlimit(max(normal, 20000))
                rec["depth_hashes"] = got
                rec["stage"] = "after-hash"
                rec["hash"] = next((h for h in got if h is not None), None)
                rec["canon"] = json.dumps(canon(a), separators=(",", ":")) if rec["hash"] else None
                rec["again"] = {}
                sys.setrecursionlimit(normal)
                out.append(rec)
                continue
            rec["stage"] = "hash"
            if b.get("crash"):
                root = os.path.dirname(os.path.dirname(os.path.abspath(__file__)))
                if root not in sys.path:
                    sys.path.insert(1, root)
                from sim.core import crash_at, crash_exception

                cp = crash_at(b["crash"][0], crash_exception(b["crash"][1], "in a hash"),
                              prefix=os.path.join(job["src"], "func_adl") + os.sep)
                try:
                    with cp:
                        calc_ast_hash(a)
                except BaseException as ex:
                    if ex is not cp.exc:
                        raise
                rec["crashed"] = cp.fired
            h1 = calc_ast_hash(a)
            rec["stage"] = "after-hash"
            rec["hash"] = h1
            rec["canon"] = json.dumps(canon(a), separators=(",", ":"))
            if b.get("mt") is not None:
                mt_groups.setdefault(b["mt"], []).append((rec, a))
            # faults between two hashes of the same query object
            again = {}
            if b.get("clock_jump"):
                clock[0] += b["clock_jump"]
                again["after_clock_jump"] = calc_ast_hash(a)
            if b.get("annotate"):
                nodes = [n for n in ast.walk(a) if isinstance(n, ast.Call)]
                for n in nodes[:3]:
                    n._q_metadata = {"k": id(n) % 7}
                    n._note = object()
                again["after_attach"] = calc_ast_hash(a)
                for n in nodes[:3]:
                    del n._q_metadata
                    del n._note
                again["after_detach"] = calc_ast_hash(a)
            if b.get("relocate"):
                for n in ast.walk(a):
                    if hasattr(n, "lineno"):
                        n.lineno += 100
                        n.col_offset = 0
                again["after_relocate"] = calc_ast_hash(a)
            # a pristine structural copy (fields only) carries no annotation, whoever attached it
            again["pristine_copy"] = calc_ast_hash(plain(a))
            if b.get("post") in ("simplify", "fn_form") and _rereadable(a):
                # the same query read back from its own text (what a cache keyed by the hash
                # would be asked about by another client)
                again["reread_from_own_text"] = calc_ast_hash(
                    ast.parse(ast.unparse(plain(a)), mode="eval").body)
            rec["again"] = again
            if b.get("exec_before") and "pickled" not in b:
                recv = datasets[b.get("dataset", 0) % len(datasets)].seen
                if recv:
                    r = recv[-1]
                    rec["received"] = {"hash": calc_ast_hash(r),
                                       "canon": json.dumps(canon(r), separators=(",", ":")),
                                       "pristine": calc_ast_hash(plain(r))}
            if b.get("want_pickle"):
                rec["pickled"] = base64.b64encode(pickle.dumps(plain(a))).decode()
        except Exception as ex:
            rec["error"] = f"{type(ex).__name__}: {ex}"[:300]
        if sid is not None:
            rec["simid_reused"] = sid.reused - reused0
            reused0 = sid.reused
        out.append(rec)
    if mt_groups:
        # several threads of this process hash their queries at the same time; after which line
        # of the library another thread runs is decided by the simulator (sim/preempt.py)
        import random

        root = os.path.dirname(os.path.dirname(os.path.abspath(__file__)))
        if root not in sys.path:
            sys.path.insert(1, root)
        from sim.preempt import Preempt

        prefix = os.path.join(job["src"], "func_adl") + os.sep
        for g in sorted(mt_groups):
            items = mt_groups[g]
            pr = Preempt(random.Random(job.get("mt_seed", 0) * 1000 + g), job.get("mt_p", 0.2), prefix)
            res = pr.run([(lambda a=a: calc_ast_hash(a)) for _, a in items])
            for (rec, _), r in zip(items, res):
                rec["mt_hash"] = r[1] if r[0] == "ok" else f"raised {type(r[1]).__name__}"
                rec["mt_switches"] = pr.switches
    sys.stdout.write(json.dumps(out))


def build(b, datasets, func_adl, simplify_chained_calls, fn_form):
    from func_adl.ast.ast_hash import calc_ast_hash

    if b.get("pad_to"):
        # pad a string constant so that the default dump of the query is exactly pad_to
        # characters long (measured on a first build with an empty pad)
        def with_pad(n):
            return [[op, arg.replace("PAD", "x" * n) if isinstance(arg, str) else arg]
                    for op, arg in b["stages"]]

        a0 = build(dict(b, pad_to=None, stages=with_pad(0)), datasets, func_adl,
                   simplify_chained_calls, fn_form)
        pad = b["pad_to"] - len(ast.dump(a0))
        if pad < 0:
            raise ValueError("query longer than the requested size")
        b = dict(b, pad_to=None, stages=with_pad(pad))
    ds = datasets[b.get("dataset", 0) % len(datasets)]
    early = b.get("hash_early")
    if b.get("repeat"):
        b = dict(b, stages=list(b["stages"]) * b["repeat"])
    mode = b["mode"]
    stages = b["stages"]
    lam_stages = [(op, arg) for op, arg in stages if op in ("Select", "Where", "SelectMany")]
    s = ds
    if mode == "callable" and len(lam_stages) == len(stages):
        tag = b["id"]
        if b.get("slot") is not None:
            # a REAL source file that is edited and re-loaded during the life of the process:
            # the same path (and mostly the same line numbers) holds another query each time
            tag = "slot"
            src = render(stages, b.get("layout", 0), tag, lift=bool(b.get("lift")),
                         as_def=bool(b.get("as_def")))
            fn = os.path.join(_scratch(), f"slot_{b['slot']}.py")
            with open(fn, "w") as f:
                f.write(src)
            _SLOT_WRITES[0] += 1
            t = 1.6e9 + 100.0 * _SLOT_WRITES[0]
            os.utime(fn, (t, t))
        else:
            src = render(stages, b.get("layout", 0), tag, lift=bool(b.get("lift")),
                         as_def=bool(b.get("as_def")))
            fn = f"<nodedisk>/build_{tag}.py"
            linecache.cache[fn] = (len(src), None, src.splitlines(True), fn)
        m = types.ModuleType(f"build_{tag}")
        m.__file__ = fn
        exec(compile(src, fn, "exec"), m.__dict__)
        s = getattr(m, f"build_{tag}")(ds)
    else:
        for op, arg in stages:
            if op in ("Select", "Where", "SelectMany"):
                if mode == "ast":
                    pad = " " * (b.get("layout", 0) % 3)
                    arg = ast.parse(pad.join(["(", arg, ")"]).strip()).body[0].value
                s = getattr(s, op)(arg)
            elif op == "MetaData":
                s = s.MetaData(dict(arg))
            elif op == "QMetaData":
                s = s.QMetaData(dict(arg))
            elif op == "AsAwkwardArray":
                s = s.AsAwkwardArray(arg)
            elif op == "AsPandasDF":
                s = s.AsPandasDF(arg)
            if early:  # a user who logs the hash of every intermediate stream
                calc_ast_hash(s.query_ast)
    if early:
        calc_ast_hash(s.query_ast)
    if b.get("qmd"):
        s = s.QMetaData({"note": b["id"]})
    if b.get("exec_before"):
        s.value()
    a = s.query_ast
    if b.get("post") == "fn_form":
        a = fn_form(a)
    elif b.get("post") == "simplify":
        a = simplify_chained_calls().visit(fn_form(plain(a)))
    return a


if __name__ == "__main__":
    main()
