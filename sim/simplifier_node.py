"""Engine `simplifier_node` (C02): a long-lived back-end process that simplifies queries.

Volatile state of the node = module state of func_adl.ast.function_simplifier (today one
integer, the fresh-name counter `argument_var_counter`).  Durable state = serialised query
texts (submitted queries and earlier outputs).  The simulator drives the node through
histories of serve / re-serve / round-trip / warm-up / restart and checks after every served
query that the simplified AST evaluates like the original (direct oracle), tagging a failure as
history-dependent when the same query text is simplified correctly under another history.

restart = a new process: the history is cut into epochs at every restart op and each epoch runs in
a process forked from the pristine, warmed-up worker, so the state of EVERY module is that of a
new interpreter; only the durable state (query and output texts) is carried over.

generate(prop, seed, tier) -> case ; execute(case) -> result ; both pure.
"""
import ast
import copy
import hashlib
import importlib.util
import json
import re

from . import linq_eval as le
from .core import Streams, mix, small_stack

ENGINE_VERSION = 2
SHRINK_EXEC = 3000
SLICE_MIN_RUNS = 150
ISOLATE = False  # execute() forks one pristine process per epoch itself
_ADDR = re.compile(r"0x[0-9a-fA-F]+")
RULE = ("one case = one seeded history (<=25 ops) of a simplifier node: serve a generated closed, "
        "type-correct query (nine fusion pairs, First/Count, tuple/list/dict packaging with constant "
        "projection, called lambdas; binders pairwise distinct, drawn from letters and from "
        "library-style arg_N names), re-serve an earlier query under the current history, "
        "round-trip an earlier output, warm up (unrelated simplifications), restart (fresh "
        "module state); every served query is evaluated, original vs simplified, on 3 seeded "
        "datasets + the empty one.  non-trivial = the run contains a restart or a round trip or a "
        "re-serve, or serves a query with an arg_N binder; distinct = different SHA-1 of (op "
        "kinds + query texts)")
COMPONENTS_REAL = ["func_adl.ast.function_simplifier (the real module, in a new process per epoch)",
                   "func_adl.ast.call_stack, func_adl.util_ast, func_adl.ast.func_adl_ast_utils",
                   "CPython compile/eval as the reference semantics"]
COMPONENTS_STUB = ["process restart (every epoch runs in a process forked from a pristine, warmed-up "
                   "worker: all module state is that of a new interpreter)",
                   "the query queue (a Python list of texts carried from epoch to epoch)"]
ASSUMPTIONS = [
    "the reference evaluator's 8 one-liners (Select/Where/SelectMany/First/Count over list) are the LINQ meaning",
    "claimed on a restricted naming family: binders pairwise distinct inside a query (letters and arg_N); no called lambda whose parameter is re-bound inside its body",
    "nothing is required where the original raises or the 200k-tick work budget is exceeded",
]
REQUIRED_PROBES = {"C02": ["probe_restart_with_argN_alive", "probe_roundtrip_served",
                           "probe_same_text_two_histories", "evals_compared"]}
BUDGETS = {"C02": dict(quick_runs=1600, thorough_budget=900,
                       technique="deterministic simulation: seeded serve/round-trip/warm/restart histories of a simplifier node, original-vs-simplified evaluation on seeded data under every fresh-name history")}

ATTRS = {"evt": {"x": "int", "w": "int", "jets": ("seq", ("rec", "jet"))},
         "jet": {"pt": "int", "eta": "int"}}
LETTERS = [a + b for a in "abcdefghjkmnpqrstuvwyz" for b in ("", "1")]


# ---------------------------------------------------------------------------------------------
# query generator (typed by construction)
# ---------------------------------------------------------------------------------------------
WARM_DISTINCT = [
    "Select(Select(ds, lambda e: e.x + {i}), lambda y: y * 2)",
    "Where(Select(ds, lambda e: e.w - {i}), lambda v: v > {i})",
    "Select(ds, lambda e: (lambda a: a + {i})(e.x))",
    "SelectMany(Select(ds, lambda e: e.jets), lambda js: Select(js, lambda j: j.pt + {i}))",
    "Select(Select(ds, lambda e: (e.x, {i})), lambda t: t[0] + t[1])",
]


class Gen:
    def __init__(self, rng, names, reuse=0.0, helpers=None):
        self.rng = rng
        self.helpers = helpers if helpers is not None else []
        self.helper_reuses = 0
        self.names = list(names)
        rng.shuffle(self.names)
        self.reuse = reuse
        self.pool = self.names[:rng.choice([1, 2, 3])] or ["a"]
        self.k = 0
        self.reentries = 0
        self.closed = []  # (type, text) of closed sub-streams generated so far
        self.reused = 0

    def fresh(self, role="stage"):
        """Next binder name.  Default: pairwise distinct.  `reuse` > 0: with that probability
        draw from a tiny pool WITH replacement, so binders repeat - in disjoint scopes and as
        inner re-use of an outer name that is still live (Python scoping is what the generated
        text means: inside the inner lambda the name is the inner parameter)."""
        self.k += 1
        if role == "helper" and self.rng.random() < 0.7:
            # parameters of helper (called) lambdas are mostly named apart from the stage
            # binders, which people call x / e / j again and again
            if self.names:
                return self.names.pop()
            return f"hh{self.k}"
        if self.reuse and self.rng.random() < self.reuse:
            return self.rng.choice(self.pool)
        if self.names and self.rng.random() < 0.7:
            return self.names.pop()
        return f"vv{self.k}"

    def paths(self, n, t, depth):
        yield n, t
        if depth == 0:
            return
        if isinstance(t, tuple) and t[0] == "rec":
            for a, at in ATTRS[t[1]].items():
                yield from self.paths(f"{n}.{a}", at, depth - 1)
        if isinstance(t, tuple) and t[0] == "tup":
            for i, et in enumerate(t[1]):
                yield from self.paths(f"{n}[{i}]", et, depth - 1)
        if isinstance(t, tuple) and t[0] == "dict":
            for k, et in t[1].items():
                if isinstance(k, int):
                    p = f"{n}[{k}]"
                else:
                    p = f"{n}.{k}" if self.rng.random() < 0.5 else f"{n}['{k}']"
                yield from self.paths(p, et, depth - 1)

    def expr(self, T, env, d):
        r = self.rng
        cands = []
        for n, t in env.items():
            for p, pt in self.paths(n, t, 2):
                if pt == T:
                    if n == "ds" and self.reentries >= 3:
                        continue
                    cands.append((p, n))
        opts = []
        if cands:
            opts += ["var"] * 3
        if T == "int":
            opts += ["const"]
            if d > 0:
                opts += ["add", "ifexp", "tupidx", "dictattr", "count", "first", "called", "helper",
                         "firstattr", "firstidx", "method"]
        elif T == "bool":
            opts += ["cmp", "cmp", "and", "not", "true"] if d > 0 else ["cmp0", "cmp0", "cmp0", "true"]
        elif T[0] == "seq":
            if d > 0:
                opts += ["select", "where", "selectmany"]
                if T[1] == "int":
                    opts += ["helper"]
        elif T[0] in ("tup", "dict"):
            opts += ["build"]
        elif T[0] == "rec":
            if d > 0:
                opts += ["first"]
        if not opts:
            return None
        if isinstance(T, tuple) and T[0] == "seq" and d > 0 and self.reentries < 3:
            # the same sub-stream used twice (a stream object joined with itself): its binder
            # names then occur several times in the query, in disjoint or nested scopes
            same = [t for (tt, t) in self.closed if tt == T]
            if same and r.random() < 0.3:
                self.reentries += 1
                self.reused += 1
                return r.choice(same)
        for _ in range(6):
            res = self.build(r.choice(opts), T, env, d, cands)
            if res is not None:
                if isinstance(T, tuple) and T[0] == "seq" and res != "ds" and "lambda" in res:
                    used = set(re.findall(r"[A-Za-z_][A-Za-z_0-9]*", res))
                    if not (used & (set(env) - {"ds"})):
                        self.closed.append((T, res))
                return res
        return None

    def lam(self, argT, resT, env, d, role="stage"):
        n = self.fresh(role)
        e2 = dict(env)
        e2[n] = argT
        b = self.expr(resT, e2, d)
        return None if b is None else f"(lambda {n}: {b})"

    def anyT(self, scalar=False):
        c = ["int", "int", ("rec", "jet")]
        if not scalar:
            c += [("tup", ["int", ("rec", "jet")]), ("dict", {"a": "int", "b": "int"}),
                  ("seq", "int"), ("tup", [("seq", ("rec", "jet")), "int"]),
                  ("tup", ["int", ("tup", ["int", ("rec", "jet")])]),
                  ("tup", [("tup", ["int", "int"]), ("tup", ["int", "int"])]),
                  ("tup", [("tup", [("seq", ("rec", "jet")), "int"]),
                           ("tup", [("seq", ("rec", "jet")), "int"])]),
                  ("dict", {"a": ("tup", ["int", "int"]), "b": "int"}),
                  ("dict", {"n": "int", 0: "int"}), ("dict", {1: "int", 0: ("rec", "jet")})]
        return self.rng.choice(c)

    def build(self, o, T, env, d, cands):
        r = self.rng

        def E(t, dd=d - 1):
            return self.expr(t, env, dd)

        if o == "var":
            p, n = r.choice(cands)
            if n == "ds":
                self.reentries += 1
            return p
        if o == "const":
            return str(r.randint(0, 5))
        if o == "add":
            a, b = E("int"), E("int")
            if None in (a, b):
                return None
            if r.random() < 0.1:
                return f"(-{a})"
            return f"({a} {r.choice('+-*')} {b})"
        if o == "ifexp":
            c, a, b = E("bool"), E("int"), E("int")
            return None if None in (a, b, c) else f"({a} if {c} else {b})"
        if o in ("cmp", "cmp0"):
            a, b = self.expr("int", env, max(d - 1, 0)), self.expr("int", env, 0)
            return None if None in (a, b) else f"({a} {r.choice(['>', '<', '==', '>='])} {b})"
        if o == "true":
            return "True"
        if o == "not":
            a = E("bool")
            return None if a is None else f"(not {a})"
        if o == "and":
            a, b = E("bool"), E("bool")
            return None if None in (a, b) else f"({a} {r.choice(['and', 'or'])} {b})"
        if o == "tupidx":
            other, me = E(self.anyT()), E(T)
            if None in (other, me):
                return None
            items, i = ([me, other], 0) if r.random() < 0.5 else ([other, me], 1)
            if r.random() < 0.5:
                return f"({items[0]}, {items[1]})[{i}]"
            return f"[{items[0]}, {items[1]}][{i}]"
        if o == "dictattr":
            me, other = E(T), E("int")
            if None in (me, other):
                return None
            how = r.random()
            if how < 0.7:
                return "{'p': %s, 'q': %s}%s" % (me, other, r.choice([".p", "['p']"]))
            if how < 0.8:  # integer keys, and string and integer keys mixed in either order
                return "{1: %s, 0: %s}[0]" % (other, me)
            if how < 0.9:
                return "{'p': %s, 0: %s}[0]" % (other, me)
            return "{0: %s, 'p': %s, 1: %s}[%s]" % (me, other, other, r.choice(["0", "0", "'p'"])) \
                if T == "int" else "{0: %s, 'p': %s}[0]" % (me, other)
        if o == "count":
            s = self.expr(("seq", self.anyT(True)), env, d - 1)
            return None if s is None else (f"Count({s})" if r.random() < 0.6 else f"{s}.Count()")
        if o == "first":
            s = self.expr(("seq", T), env, d - 1)
            return None if s is None else (f"First({s})" if r.random() < 0.6 else f"{s}.First()")
        if o == "firstattr":  # First(seq of records).attr  /  seq.First().attr
            sq = self.expr(("seq", ("rec", "jet")), env, d - 1)
            if sq is None:
                return None
            f = f"First({sq})" if r.random() < 0.5 else f"{sq}.First()"
            return f"{f}.{r.choice(['pt', 'eta'])}"
        if o == "firstidx":  # First(seq of tuples)[i]
            sq = self.expr(("seq", ("tup", ["int", ("rec", "jet")])), env, d - 1)
            if sq is None:
                return None
            f = f"First({sq})" if r.random() < 0.5 else f"{sq}.First()"
            return f"{f}[0]" if r.random() < 0.6 else f"{f}[1].pt"
        if o == "method":  # a method call with an argument on a record (also on First(...))
            rec = self.expr(("rec", "jet"), env, d - 1)
            k = E("int")
            return None if None in (rec, k) else f"{rec}.scale({k})"
        if o == "called":
            # a helper lambda; the same helper text may be called again elsewhere (in this query
            # or a later one of the run) with another argument - what an inlined Python helper
            # function looks like inside a query
            key = json.dumps(T)
            known = [h for h in self.helpers if h[0] == "1:" + key]
            if known and r.random() < 0.5:
                _, aT, l = r.choice(known)
                a = E(aT)
                if a is not None:
                    self.helper_reuses += 1
                    return f"{l}({a})"
            aT = r.choice([self.anyT(True), ("seq", "int"), ("seq", ("rec", "jet"))])
            a = E(aT)
            # helpers are generated closed (their only free name is their parameter)
            l = self.lam(aT, T, {"ds": env["ds"]} if r.random() < 0.4 else env, d - 1, role="helper")
            if None in (a, l):
                return None
            used = set(re.findall(r"[A-Za-z_][A-Za-z_0-9]*", l))
            if not (used & (set(env) - {"ds"})) and "Select" in l:
                self.helpers.append(("1:" + key, aT, l))
            if r.random() < 0.25:  # argument given by keyword
                pname = re.match(r"\(lambda (\w+):", l).group(1)
                return f"{l}({pname}={a})"
            return f"{l}({a})"
        if o == "helper":
            # a two-parameter helper (what an inlined Python helper function looks like): it
            # fuses stages internally and mentions its scalar parameter inside a stage lambda;
            # the same helper text is called again elsewhere with other arguments
            key = json.dumps(T)
            known = [h for h in self.helpers if h[0] == key]
            if known and r.random() < 0.6:
                text = r.choice(known)[1]
                self.helper_reuses += 1
            else:
                js, c = self.fresh("helper"), self.fresh("helper")
                a_, b_ = self.fresh(), self.fresh()
                if js == c or {js, c} & {a_, b_}:
                    return None
                if T == "int":
                    body = r.choice([
                        f"Count(Where(Select({js}, lambda {a_}: {a_}.pt), lambda {b_}: {b_} > {c}))",
                        f"Count(Select(Where({js}, lambda {a_}: {a_}.pt > {c}), lambda {b_}: {b_}.eta)) + {c}",
                        # the sequence parameter used again underneath a stage lambda
                        f"Count(Where({js}, lambda {a_}: Count({js}) > {a_}.pt + {c}))",
                    ])
                else:
                    body = [
                        f"Select(Select({js}, lambda {a_}: {a_}.pt), lambda {b_}: {b_} * {c})",
                        f"Where(Select({js}, lambda {a_}: {a_}.eta + {c}), lambda {b_}: {b_} > 0)",
                        f"Select(Select({js}, lambda {a_}: ({a_}.pt, {c})), lambda {b_}: {b_}[0] + {b_}[1])",
                        f"Select({js}, lambda {a_}: Count({js}) * 100 + {a_}.pt * {c})",
                        f"Select({js}, lambda {a_}: Count(Where({js}, lambda {b_}: {b_}.pt > {c})) + {a_}.eta)",
                    ]
                    if a_ != b_:
                        body.append(f"SelectMany(Select({js}, lambda {a_}: ({a_}, {c})), lambda {b_}: Select({js}, lambda {a_}: {a_}.pt + {b_}[1]))")
                    body = r.choice(body)
                text = f"(lambda {js}, {c}: {body})"
                self.helpers.append((key, text))
            aj, ac = E(("seq", ("rec", "jet"))), E("int")
            if None in (aj, ac):
                return None
            pj, pc = re.match(r"\(lambda (\w+), (\w+):", text).groups()
            how = r.random()
            if how < 0.65:
                return f"{text}({aj}, {ac})"
            if how < 0.85:  # mixed positional / keyword
                return f"{text}({aj}, {pc}={ac})"
            return f"{text}({pc}={ac}, {pj}={aj})"  # all by keyword, re-ordered
        if o == "build":
            if T[0] == "tup":
                es = [E(t) for t in T[1]]
                return None if None in es else "(" + ", ".join(es) + ",)"
            es = {k: E(t) for k, t in T[1].items()}
            if None in es.values():
                return None
            return "{" + ", ".join(f"{k!r}: {v}" for k, v in es.items()) + "}"
        elT = T[1]
        form = r.choice(["f", "m"])

        def call(op, s, l):
            return f"{op}({s}, {l})" if form == "f" else f"{s}.{op}({l})"

        if o == "select":
            inT = self.anyT()
            s = self.expr(("seq", inT), env, d - 1)
            if s is None:
                return None
            l = self.lam(inT, elT, env, d - 1)
            return None if l is None else call("Select", s, l)
        if o == "where":
            s = self.expr(("seq", elT), env, d - 1)
            if s is None:
                return None
            if elT == ("rec", "evt") and r.random() < 0.35:
                # a guard followed by a predicate that is only defined on what the guard lets
                # through (First of the now non-empty collection)
                a_, b_, c_ = self.fresh(), self.fresh(), self.fresh()
                guard = r.choice([f"Count({a_}.jets) > 0",
                                  f"Count(Where({a_}.jets, lambda {c_}: {c_}.pt >= 0)) > 0",
                                  f"Count(Select({a_}.jets, lambda {c_}: {c_}.eta)) > 0"])
                pred = r.choice([f"First({b_}.jets).pt > {r.randint(0, 3)}",
                                 f"First({b_}.jets).eta < {b_}.x",
                                 f"First(Select({b_}.jets, lambda {c_}: {c_}.pt)) >= {r.randint(0, 2)}"])
                if a_ != c_ and b_ != c_:
                    return call("Where", call("Where", s, f"(lambda {a_}: {guard})"),
                                f"(lambda {b_}: {pred})")
            l = self.lam(elT, "bool", env, d - 1)
            return None if l is None else call("Where", s, l)
        if o == "selectmany":
            inT = r.choice([("rec", "evt"), ("rec", "jet"), "int",
                            ("tup", ["int", ("seq", ("rec", "jet"))])])
            s = self.expr(("seq", inT), env, d - 1)
            if s is None:
                return None
            l = self.lam(inT, ("seq", elT), env, d - 1)
            return None if l is None else call("SelectMany", s, l)
        return None


IDIOMS = [
    # a stream built from the event (with its own stage lambda) handed to a helper that uses it
    # underneath another stage lambda - the shape an inlined Python helper function takes
    "Select(ds, lambda {x}: (lambda {s}: Select({x}.jets, lambda {x2}: Count({s}) + {x2}.pt))(Select({x}.jets, lambda {x3}: {x3}.eta * 2)))",
    "Select(ds, lambda {x}: (lambda {s}, {n}: Select({x}.jets, lambda {x2}: ({x2}.pt, Count({s}), {n})))(Where({x}.jets, lambda {x3}: {x3}.pt > 1), {x}.w))",
    "SelectMany(ds, lambda {x}: Select((lambda {n}: Where({x}.jets, lambda {x2}: {n} > {x2}.eta))(Count(Where({x}.jets, lambda {x3}: {x3}.pt > 1))), lambda {x4}: {x4}.pt))",
    "Select(ds, lambda {x}: (lambda {s}: Count(Where({x}.jets, lambda {x2}: Count({s}) > {x2}.eta)))(Select({x}.jets, lambda {x3}: ({x3}.pt, {x}.w))))",
    "Select(ds, lambda {x}: (lambda {s}: Select({s}, lambda {x2}: {x2} + Count({s})))(Select({x}.jets, lambda {x3}: {x3}.pt + {x}.x)))",
    "Where(ds, lambda {x}: (lambda {s}, {n}: Count(Where({s}, lambda {x2}: {x2} > {n})) > 0)(Select({x}.jets, lambda {x3}: {x3}.pt), {x}.x))",
    "Select(Select(ds, lambda {x}: (lambda {s}: ({s}, Select({s}, lambda {x2}: {x2}.pt)))({x}.jets)), lambda {x3}: Count({x3}[0]) + Count({x3}[1]))",
    "SelectMany(ds, lambda {x}: (lambda {s}: SelectMany({s}, lambda {x2}: Select({s}, lambda {x3}: {x2}.pt - {x3}.pt)))(Where({x}.jets, lambda {x4}: {x4}.eta > -2)))",
    # a sequence-valued stage parameter (itself a filtered / projected stream) used three times
    "Select(Select(ds, lambda {x}: Where(Select({x}.jets, lambda {x2}: {x2}.eta), lambda {x3}: {x3} >= {x}.x - 3)), lambda {s}: SelectMany(Select({s}, lambda {x4}: {x4}), lambda {n}: Where(Select({s}, lambda {x2}: First({s})), lambda {x3}: {n} <= {x3})))",
    "Select(SelectMany(ds, lambda {x}: Select(Select({x}.jets, lambda {x2}: ({x}.x, {x2})), lambda {x3}: Where(Select({x}.jets, lambda {x4}: {x4}.eta), lambda {n}: {n} == {x3}[1].eta))), lambda {s}: Count(SelectMany(Select({s}, lambda {x2}: {x2}), lambda {x3}: Where(Select({s}, lambda {x4}: First({s})), lambda {n}: {x3} <= {n}))))",
    # a called lambda inside a called lambda, the inner one re-using a name the outer argument mentions
    "Select(ds, lambda {x}: (lambda {s}: (lambda {x2}: First(Select({s}, lambda {x3}: ({x3}.pt, {x3}.eta)))[0] + {x2})(1))({x}.jets))",
    "Select(ds, lambda {x}: (lambda {s}: (lambda {x2}: Count(Where(Select({s}, lambda {x3}: {x3}.pt), lambda {x4}: {x4} > {x2})))(1))({x}.jets))",
    "Select(ds, lambda {x}: (lambda {s}: (lambda {x2}: Count(Where(Select({s}, lambda {x3}: {x3}.pt), lambda {x4}: {x4} > {x2})))({x}.w))({x}.jets))",
    "Select(ds, lambda {x}: (lambda {s}: (lambda {x2}: First(Select({s}, lambda {x3}: ({x3}.pt, {x2})))[0] + {x2})({x}.x))(Where({x}.jets, lambda {x4}: {x4}.pt >= 0)))",
    # guarded filters: the later predicate is only defined on what the earlier one lets through
    "Where(Where(ds, lambda {x}: Count(Where({x}.jets, lambda {x2}: {x2}.pt >= 0)) > 0), lambda {x3}: First({x3}.jets).pt > 1)",
    "Where(Where(ds, lambda {x}: Count({x}.jets) > 0), lambda {x2}: First({x2}.jets).eta < 1)",
    "Select(Where(Where(ds, lambda {x}: Count(Select({x}.jets, lambda {x2}: {x2}.eta)) > 1), lambda {x3}: First({x3}.jets).pt >= 0), lambda {x4}: First({x4}.jets).pt + {x4}.x)",
    "Select(ds, lambda {x}: Count(Where(Where({x}.jets, lambda {x2}: Count(Where({x}.jets, lambda {x3}: {x3}.pt > {x2}.pt)) > 0), lambda {x4}: First(Where({x}.jets, lambda {s}: {s}.pt > {x4}.pt)).pt > 0)))",
    "SelectMany(ds, lambda {x}: Where(Where({x}.jets, lambda {x2}: Count(Where({x}.jets, lambda {x3}: {x3}.eta < {x2}.eta)) > 0), lambda {x4}: First(Where({x}.jets, lambda {n}: {n}.eta < {x4}.eta)).pt >= 0))",
    # one name bound on three nested levels, the middle binding used again after the innermost
    # scope has ended
    "Select(Select(ds, lambda {x}: {x}.jets), lambda {x2}: Select({x2}, lambda {x2}: (Count(Where([{x2}.pt, {x2}.eta], lambda {x2}: {x2} > 1)), {x2}.pt)))",
    "Select(SelectMany(ds, lambda {x}: {x}.jets), lambda {x2}: (lambda {x2}: (Count(Where([{x2}.pt, {x2}.eta], lambda {x2}: {x2} > 0)), {x2}.eta))({x2}))",
    "Where(Select(ds, lambda {x}: {x}.jets), lambda {x2}: Count(Where({x2}, lambda {x2}: Count(Where([{x2}.pt], lambda {x2}: {x2} > 1)) + {x2}.eta > 0)) > 0)",
    "SelectMany(Select(ds, lambda {x}: {x}.jets), lambda {x2}: Select({x2}, lambda {x2}: (Count(Select([{x2}.eta, 1], lambda {x2}: {x2} * 2)), {x2}.pt, {x2}.eta)))",
    "Select(Select(ds, lambda {x}: ({x}.jets, {x}.x)), lambda {x}: Select({x}[0], lambda {x}: Count(Where([{x}.pt, 2], lambda {x}: {x} > 1)) + {x}.eta))",
    # dict displays with a repeated key (the last one counts), with keys that are equal but not
    # identical, and a projection guarded by a membership test
    "Select(ds, lambda {x}: {{'a': {x}.x, 'a': {x}.w}}['a'])",
    "Select(ds, lambda {x}: (lambda {s}: {s}.a + {s}['a'])({{'a': {x}.x, 'b': 1, 'a': {x}.w}}))",
    "Select(ds, lambda {x}: {{1: {x}.x, True: {x}.w}}[1])",
    "Select(ds, lambda {x}: (lambda {s}: {s}['b'] if 'b' in {s} else 0)({{'a': {x}.x}}))",
    "Select(ds, lambda {x}: Select({x}.jets, lambda {x2}: (lambda {s}: {s}['q'] if 'q' in {s} else {s}['p'])({{'p': {x2}.pt}})))",
]


def gen_deep(rng, g):
    "A deeply nested but cheap expression (a long left-nested sum) under a called lambda."
    x, x2, sname = g.fresh("stage"), g.fresh("stage"), g.fresh("helper")
    if sname in (x, x2):
        return None
    n = rng.choice([30, 60, 100, 150, 200, 240, 260, 280, 300])
    tail = " + 1" * n
    return rng.choice([
        f"Select(ds, lambda {x}: (lambda {sname}: {sname}{tail})({x}.x))",
        f"Select(ds, lambda {x}: Count(Where({x}.jets, lambda {x2}: (lambda {sname}: {sname}{tail} > 3)({x2}.pt))))",
    ])


def gen_idiom(rng, g):
    names = {k: g.fresh("stage") for k in ("x", "x2", "x3", "x4")}
    names.update({k: g.fresh("helper") for k in ("s", "n")})
    if names["s"] == names["n"] or {names["s"], names["n"]} & {names[k] for k in ("x", "x2", "x3", "x4")}:
        return None
    q = rng.choice(IDIOMS).format(**names)
    if rng.random() < 0.3:
        q = "Select(%s, lambda %s: %s)" % (q, names["x"], names["x"])
    return q


def gen_nest(rng, names):
    """Three to five called lambdas inside one another under a stage lambda, parameter names drawn
    from a pool of three (so an inner parameter often re-uses the name of an outer binder whose
    value travels inwards through another parameter), the sequence parameter looked at through
    First(...) with an index / attribute in the innermost body; positional or keyword arguments."""
    pool = rng.sample(list(names), 3)
    e = rng.choice(pool)
    k = rng.randint(3, 5)
    p0 = rng.choice(pool)
    rest_pool = [n for n in pool if n != p0]
    params = [p0] + [rng.choice(rest_pool) for _ in range(k - 1)]
    if e != p0 and rng.random() < 0.5:
        params[-1] = e  # the innermost parameter re-uses the stage binder the sequence came from
    j = rng.choice(pool)
    args = [rng.choice([f"{e}.jets", f"Where({e}.jets, lambda {j}: {j}.pt >= 0)",
                        f"Select({e}.jets, lambda {j}: {j})"])]
    for i in range(1, k):
        opts = [str(rng.randint(0, 5))]
        if e not in params[:i]:
            opts += [f"{e}.x", f"{e}.w + {rng.randint(0, 3)}"]
        else:
            opts += [f"Count({p0})"] if p0 not in params[1:i] else []
        args.append(rng.choice(opts))
    first = rng.choice([f"First({p0}).pt", f"First({p0}).eta", f"{p0}.First().pt",
                        f"First(Select({p0}, lambda {j}: ({j}.pt, {j}.eta)))[{rng.randint(0, 1)}]",
                        f"First(Select({p0}, lambda {j}: {{'a': {j}.pt, 'b': {j}.eta}})).{rng.choice('ab')}"])
    body = " + ".join([first] + sorted(set(params[1:])))
    kw = rng.random() < 0.4
    for i in range(k - 1, -1, -1):
        a = f"{params[i]}={args[i]}" if kw and rng.random() < 0.7 else args[i]
        body = f"(lambda {params[i]}: {body})({a})"
    guard = f"Where(ds, lambda {j}: Count({j}.jets) > 0)"
    return f"Select({guard}, lambda {e}: {body})"


def gen_query(rng, names, reuse=0.0, helpers=None):
    if rng.random() < 0.15:
        q = gen_idiom(rng, Gen(rng, names, reuse, helpers))
        if q:
            return q
    if rng.random() < 0.03:
        q = gen_deep(rng, Gen(rng, names, reuse, helpers))
        if q:
            return q
    for _ in range(50):
        g = Gen(rng, names, reuse, helpers)
        T = ("seq", g.anyT())
        q = g.expr(T, {"ds": ("seq", ("rec", "evt"))}, rng.randint(2, 5))
        if q and q != "ds" and ("Select" in q or "Where" in q):
            return q
    return "Select(ds, (lambda e: e.x))"


def gen_data(rng):
    return [[{"x": rng.randint(0, 4), "w": rng.randint(0, 4),
              "jets": [{"pt": rng.randint(0, 5), "eta": rng.randint(-2, 2)}
                       for _ in range(rng.randint(0, 3))]}
             for _ in range(rng.randint(0, 4))] for _ in range(3)] + [[]]


class JetRec(le.Rec):
    "A jet record with one method taking an argument."

    def scale(self, k):
        return self.pt * k


def build_data(spec):
    return [le.Seq([le.Rec(x=e["x"], w=e["w"],
                           jets=le.Seq([JetRec(**j) for j in e["jets"]])) for e in d])
            for d in spec]


EXTEND = [
    "Select({S}, lambda {p}: Select({S}, lambda {q}: ({p}, {q})))",
    "SelectMany({S}, lambda {p}: Select({S}, lambda {q}: ({q}, {p})))",
    "Where({S}, lambda {p}: Count(Where({S}, lambda {q}: True)) > 0)",
    "Select({S}, lambda {p}: ({p}, Count({S})))",
    "Select(Select({S}, lambda {p}: ({p}, 1)), lambda {q}: {q}[0])",
]
BAD_QUERIES = [
    "Select(ds, lambda {x}: Select({x}.jets, lambda {x2}: ({x2}.pt, {x}.w)[2]))",
    "Select(ds, lambda {x}: (lambda {s}: {s}[3])(({x}.x, {x}.w)))",
    "Select(ds, lambda {x}: Select({x}.jets, lambda {x2}: Select({x}.jets, lambda {x3}: [{x3}.pt, {x2}.pt][5])))",
    "Where(ds, lambda {x}: (lambda {s}: Count(Where({x}.jets, lambda {x2}: ({x2}.pt, {s})[4] > 0)) > 0)({x}.x))",
]
WARM_QUERY = "Select(Select(ds, lambda e: (e.x, e.w)), lambda t: t[0] + t[1])"


def generate(prop, seed, tier="quick", fault_free=False):
    st = Streams(mix(seed, "simplifier_node", prop))
    w, c = st.get("workload"), st.get("config")
    naming = "letters" if fault_free and c.random() < 0.5 else c.choice(["argn", "argn", "mixed"])
    # binder-naming scheme of the run: all distinct / some re-use / (nearly) all identical
    reuse = c.choice([0.0, 0.0, 0.3, 0.6, 1.0])
    max_c = c.choice([6, 12, 20])
    argn = [f"arg_{i}" for i in range(0, max_c + 6)]
    names = {"letters": LETTERS, "argn": argn + LETTERS[:6], "mixed": argn + LETTERS}[naming]
    n_ops = 3 + int(w.expovariate(1 / 7.0))
    helpers = []  # helper lambdas shared by the queries of this run
    ops = []
    n_served = 0
    for _ in range(min(n_ops, 25)):
        r = w.random()
        if fault_free:
            # no restarts, no warm-ups, no round trips: one history, ordinary generation
            ops.append({"op": "serve", "q": gen_query(w, names, reuse, helpers)})
            n_served += 1
            continue
        if r < 0.42 or n_served == 0:
            op = {"op": "serve", "q": gen_query(w, names, reuse, helpers)}
            if w.random() < 0.12:
                # resource fault: few frames left for the recursive rewrite, as for a much
                # deeper query.  Failing with RecursionError is fine, a wrong answer is not.
                op["stack"] = w.choice([12, 20, 30, 40, 55, 70, 90, 110, 160, 340, 400])
            ops.append(op)
            n_served += 1
        elif r < 0.55:
            ops.append({"op": "reserve", "ref": w.randrange(64)})
            n_served += 1
        elif r < 0.68:
            ops.append({"op": "roundtrip", "ref": w.randrange(64)})
            n_served += 1
        elif r < 0.76:
            # a query built up step by step: an earlier *output* extended (possibly joined with
            # itself) and simplified again
            ops.append({"op": "extend", "ref": w.randrange(64), "shape": w.randrange(len(EXTEND)),
                        "p": w.choice(["pp", "arg_%d" % w.randrange(0, 30)]),
                        "q": w.choice(["qq", "arg_%d" % w.randrange(30, 60)])})
            n_served += 1
        elif r < 0.88:
            ops.append({"op": "restart",
                        "epoch": "child" if (tier == "thorough" and w.random() < 0.05) else "module"})
        elif r < 0.92:
            ops.append({"op": "warm", "k": w.choice([1, 1, 2, 3, 5, 9, 40, 300])})
        elif r < 0.935:
            # boundary probing: the deepest query the process can still simplify must still be
            # simplified *correctly* (found by bisection at run time, then served)
            g = Gen(w, names, reuse, helpers)
            ops.append({"op": "serve_deep", "x": g.fresh("stage"), "s": g.fresh("helper"),
                        "shape": w.randrange(2)})
        else:
            # a query the simplifier rejects with its dedicated index error, raised from inside
            # nested lambdas / a called lambda: whatever it leaves behind meets the next query
            g = Gen(w, names, reuse, helpers)
            nm = {k: g.fresh("stage") for k in ("x", "x2", "x3")}
            nm["s"] = g.fresh("helper")
            ops.append({"op": "serve_bad", "q": w.choice(BAD_QUERIES).format(**nm)})
    config = {"naming": naming, "binder_reuse": reuse, "data": gen_data(st.get("data")),
              # a back end may keep one transformer object and feed it query after query
              "reuse_instance": (not fault_free) and c.random() < 0.3,
              # Python's default recursion limit, or the roomier one of the harness
              "recursion_limit": 3000 if fault_free else c.choice([1000, 3000])}
    # fault kinds added later draw from their own PRNG sub-stream: the cases of runs that do not
    # enable them are exactly what they were before
    nst = st.get("nest")
    if nst.random() < 0.35:
        # a chain of called lambdas three to five deep (own sub-stream, as below)
        at = nst.randrange(len(ops) + 1)
        ops = ops[:at] + [{"op": "serve", "q": gen_nest(nst, names)}] + ops[at:]
    dr = st.get("directed")
    if not fault_free and config["reuse_instance"] and dr.random() < 0.5:
        # fault placed where it creates in-flight state: a fresh process whose one transformer
        # object has just thrown a query out mid-rewrite is handed, as its very next query, one
        # that already carries library-style arg_N names (low numbers, the counter is young)
        g = Gen(dr, names, reuse, helpers)
        nm = {k: g.fresh("stage") for k in ("x", "x2", "x3")}
        nm["s"] = g.fresh("helper")
        low = [f"arg_{i}" for i in range(0, 6)]
        at = dr.randrange(len(ops) + 1)
        ops = ops[:at] + [{"op": "restart", "epoch": "module"},
                          {"op": "serve_bad", "q": dr.choice(BAD_QUERIES).format(**nm)},
                          {"op": "serve", "q": gen_query(dr, low, dr.choice([0.0, 0.3]), [])}] + ops[at:]
    x = st.get("faults2")
    if not fault_free and x.random() < 0.05:
        at = x.randrange(len(ops) + 1)
        ops = ops[:at] + [{"op": "warm", "k": x.choice([100, 300, 300, 700]), "distinct": True}] + ops[at:]
    if not fault_free and x.random() < 0.45 and not config["reuse_instance"]:
        # threads: two or three queries are simplified at the same time by threads of one
        # process; after which LINE of the library another thread runs is the simulator's choice
        helpers2 = []
        at = x.randrange(len(ops) + 1)
        ops = ops[:at] + [{"op": "serve_mt", "p": x.choice([0.02, 0.1, 0.3]), "seed": x.randrange(10 ** 6),
                           "qs": [gen_query(x, names, reuse, helpers2) for _ in range(x.randint(2, 3))],
                           "opcodes": x.random() < 0.5}] + ops[at:]
    if not fault_free:
        # object lifetime: queries die after they were served; inside the package `id()` hands
        # the numbers of dead objects to new ones (sim/simid.py)
        config["lifetime"] = x.random() < 0.5
        if x.random() < 0.5 and not config["reuse_instance"]:
            # crash points: an asynchronous exception lands at the k-th line of a rewrite (a
            # fresh transformer object per query: whatever is left behind is module state)
            ops = [({**op, "crash": [int(2 ** x.uniform(0, 10)), x.choice(["keyboard", "memory", "abort"])]}
                    if op["op"] == "serve" and "stack" not in op and x.random() < 0.15 else op)
                   for op in ops]
    return {"property": prop, "engine": "simplifier_node", "engine_version": ENGINE_VERSION,
            "seed": seed, "sched_seed": 0, "config": config, "ops": ops}


# ---------------------------------------------------------------------------------------------
# execution
# ---------------------------------------------------------------------------------------------
class Violation(Exception):
    def __init__(self, cls, detail):
        super().__init__(cls)
        self.cls = cls
        self.detail = detail


_real = None


def _real_mod():
    global _real
    if _real is None:
        import func_adl.ast.function_simplifier as real

        _real = real
    return _real


_load_no = [0]


def fresh_module():
    "A 'process restart': the simplifier module loaded afresh (module state reset)."
    real = _real_mod()
    _load_no[0] += 1
    spec = importlib.util.spec_from_file_location(f"_simnode_fs_{_load_no[0]}", real.__file__)
    m = importlib.util.module_from_spec(spec)
    spec.loader.exec_module(m)
    return m


def parse_query(text):
    from func_adl.ast.func_adl_ast_utils import change_extension_functions_to_calls

    return change_extension_functions_to_calls(ast.parse(text, mode="eval").body)


class _roomy_stack:
    "Harness work (copying, compiling, evaluating deep trees) gets a roomy recursion limit."

    def __enter__(self):
        import sys

        self.old = sys.getrecursionlimit()
        sys.setrecursionlimit(max(self.old, 20000))

    def __exit__(self, *a):
        import sys

        sys.setrecursionlimit(self.old)
        return False


def ev(a, data):
    with _roomy_stack():
        return _ev(a, data)


def _ev(a, data):
    try:
        return ("ok", le.norm(le.evaluate(a, {"ds": data})))
    except le.Budget:
        return ("budget",)
    except RecursionError:
        return ("exc", "RecursionError")
    except Exception as ex:
        return ("exc", type(ex).__name__)


def counter_of(mod):
    return getattr(mod, "argument_var_counter", None)


def simplify(mod, a, inst=None, copy_input=True):
    t = inst if inst is not None else mod.simplify_chained_calls()
    return t.visit(copy.deepcopy(a) if copy_input else a)


def to_text(a):
    "Honest serialisation of a simplifier output (un-shared structural copy first)."
    return ast.unparse(le.plain_copy(a))


class Node:
    """One epoch of the node: a freshly started process (forked from the pristine worker, so
    EVERY module's state is what a new interpreter has), given the durable state of the earlier
    epochs (the served queries and outputs as text)."""

    def __init__(self, case, state=None):
        self.case = case
        self.data = build_data(case["config"]["data"])
        self.mod = _real_mod()
        self.inst = None
        state = state or {}
        self.stats = state.get("stats", {})
        self.served = state.get("served", [])  # {text, refs, out, counter, root}
        self.events = state.get("events", [])
        self.resolved = state.get("resolved", [])
        self.restarted_since_argn_made = state.get("restarted", False)
        self.refs_cache = {}

    def stat(self, k, n=1):
        self.stats[k] = self.stats.get(k, 0) + n

    def refs_for(self, text):
        r = self.refs_cache.get(text)
        if r is None:
            a = parse_query(text)
            r = self.refs_cache[text] = [ev(a, d) for d in self.data]
        return r

    def serve(self, text, refs, origin, root, stack=None, deep=False, crash=None):
        """Simplify `text` under the node's current history and compare with `refs` (the
        outcomes of the query this text stands for)."""
        a = parse_query(text)
        before = counter_of(self.mod)
        has_argn = bool(re.search(r"\barg_\d+\b", text))
        if has_argn:
            self.stat("served_with_argN_binder")
            if self.restarted_since_argn_made:
                self.stat("probe_restart_with_argN_alive")
        window = small_stack(stack) if stack else None
        if crash and not self.case["config"].get("reuse_instance"):
            from .core import crash_at, crash_exception

            cp = crash_at(crash[0], crash_exception(crash[1], "in a rewrite"))
            self.stat("fault_crash_point_armed")
            try:
                with cp:
                    simplify(self.mod, a, copy_input=True)
            except BaseException as ex:
                if ex is cp.exc:
                    self.stat("fault_crash_point_fired")
                    self.events.append(f"serve|{origin}|crashed")
                    return None
                if not isinstance(ex, Exception):
                    raise
            # not reached (or the rewrite failed on its own): serve the query normally
            a = parse_query(text)
        try:
            if window is not None:
                window.__enter__()
                self.stat("fault_small_stack")
            if self.case["config"].get("reuse_instance"):
                if self.inst is None:
                    self.inst = self.mod.simplify_chained_calls()
                    self.stat("transformer_instances_kept")
                else:
                    self.stat("probe_transformer_instance_reused")
                s = simplify(self.mod, a, self.inst, copy_input=not deep)
            else:
                s = simplify(self.mod, a, copy_input=not deep)
        except RecursionError:
            if window is not None:
                window.restore()
            self.stat("simplifier_recursion")
            self.events.append(f"serve|{origin}|recursion")
            return None
        except Exception as ex:  # totality is C18's business (n/a); counted, not judged
            if window is not None:
                window.restore()
            self.stat("simplifier_raised")
            self.events.append(f"serve|{origin}|raised:{type(ex).__name__}")
            return None
        if window is not None:
            window.restore()
        try:
            out_text = "<unprintable>" if deep else to_text(s)
        except Exception:
            out_text = "<unprintable>"
        if not deep and out_text != ast.unparse(a):
            self.stat("queries_changed_by_simplifier")
        self.stat("served")
        bad = None
        for i, (d, r) in enumerate(zip(self.data, refs)):
            if r[0] != "ok":
                self.stat("orig_raised_or_budget")
                continue
            g = ev(s, d)
            if g[0] == "budget":
                self.stat("budget_skips")
                continue
            self.stat("evals_compared")
            if g != r:
                bad = (i, r, g)
                break
        self.events.append(f"serve|{origin}|{before}|{hashlib.sha1(out_text.encode()).hexdigest()[:10]}|{bad is None}")
        rec = {"text": text, "refs": refs, "out": out_text, "counter": before, "root": root}
        if bad is not None:
            # is the failure history-dependent?  simplify the same text under other histories
            verdicts = {}
            for label, c0 in (("fresh", 0), ("plus7", (before or 0) + 7), ("high", 1000)):
                m2 = fresh_module()
                if hasattr(m2, "argument_var_counter"):
                    m2.argument_var_counter = c0
                try:
                    s2 = simplify(m2, parse_query(text))
                    g2 = ev(s2, self.data[bad[0]])
                    verdicts[label] = (g2 == bad[1])
                except Exception:
                    verdicts[label] = False
            hd = any(verdicts.values())
            raise Violation("C02/history-dependent-value" if hd else "C02/value", {
                "history_dependent": hd, "other_histories_correct": verdicts,
                "counter_before": before, "origin": origin, "query": text, "simplified": out_text,
                "dataset": bad[0], "original_value": repr(bad[1])[:200],
                "simplified_value": repr(bad[2])[:200]})
        return rec

    def run(self, ops):
        for op in ops:
            k = op["op"]
            self.resolved.append(op)
            if k == "serve":
                root = op.get("for", op["q"])
                if "for" in op:
                    self.stat({"roundtrip": "probe_roundtrip_served",
                               "extend": "probe_extended_output_served"}.get(
                        op.get("was"), "probe_same_text_two_histories"))
                rec = self.serve(op["q"], self.refs_for(root), op.get("was", "submit"), root,
                                 stack=op.get("stack"), crash=op.get("crash"))
                if rec:
                    self.served.append(rec)
            elif k == "reserve":
                if not self.served:
                    continue
                old = self.served[op["ref"] % len(self.served)]
                if counter_of(self.mod) != old["counter"]:
                    self.stat("probe_same_text_two_histories")
                self.resolved[-1] = {"op": "serve", "q": old["text"], "for": old["root"],
                                     "was": "reserve"}
                rec = self.serve(old["text"], old["refs"], "reserve", old["root"])
                if rec:
                    self.served.append(rec)
            elif k == "roundtrip":
                if not self.served:
                    continue
                old = self.served[op["ref"] % len(self.served)]
                if old["out"] == "<unprintable>":
                    continue
                self.stat("probe_roundtrip_served")
                # the output stands for the original query: it must still compute its value
                self.resolved[-1] = {"op": "serve", "q": old["out"], "for": old["root"],
                                     "was": "roundtrip"}
                rec = self.serve(old["out"], old["refs"], "roundtrip", old["root"])
                if rec:
                    self.served.append(rec)
            elif k == "extend":
                if not self.served:
                    continue
                old = self.served[op["ref"] % len(self.served)]
                if old["out"] == "<unprintable>":
                    continue
                names = set(re.findall(r"[A-Za-z_][A-Za-z_0-9]*", old["out"] + old["root"]))
                p_, q_ = op["p"], op["q"]
                if p_ in names or q_ in names or p_ == q_:
                    p_, q_ = "pp_" + p_, "qq_" + q_
                tmpl = EXTEND[op["shape"] % len(EXTEND)]
                text = tmpl.format(S=old["out"], p=p_, q=q_)
                root = tmpl.format(S=old["root"], p=p_, q=q_)
                self.stat("probe_extended_output_served")
                self.resolved[-1] = {"op": "serve", "q": text, "for": root, "was": "extend"}
                rec = self.serve(text, self.refs_for(root), "extend", root)
                if rec:
                    self.served.append(rec)
            elif k == "restart":  # only reached as the first op of an epoch
                self.stat("fault_restart")
                self.restarted_since_argn_made = True
                self.events.append("restart")
            elif k == "serve_deep":
                if op["x"] == op["s"]:
                    continue

                def deep(n):
                    tail = " + 1" * n
                    if op["shape"] == 0:
                        return f"Select(ds, lambda {op['x']}: (lambda {op['s']}: {op['s']}{tail})({op['x']}.x))"
                    return (f"Select(ds, lambda {op['x']}: (lambda {op['s']}: ({op['s']}{tail}, {op['s']}))"
                            f"({op['x']}.w))")

                def ok(n):
                    try:
                        simplify(self.mod, parse_query(deep(n)), copy_input=False)
                        return True
                    except RecursionError:
                        return False
                    except Exception:
                        return False

                box = {}

                def probe():
                    # on a thread of its own: how deep the process can go then does not depend
                    # on how deep the caller of this run happens to be
                    try:
                        lo, hi = 8, 1200
                        if not ok(lo):
                            return
                        while hi - lo > 1:  # largest depth that does not overflow
                            mid = (lo + hi) // 2
                            if ok(mid):
                                lo = mid
                            else:
                                hi = mid
                        self.stat("probe_deepest_query_served")
                        for n in sorted({lo, lo - 1, lo - 7, max(8, lo - 40)}):
                            text = deep(n)
                            refs = self.refs_for(text)
                            self.resolved.append({"op": "serve", "q": text})
                            rec = self.serve(text, refs, "deep", text, deep=True)
                            if rec:
                                rec["out"] = "<unprintable>"  # too deep to round-trip
                                self.served.append(rec)
                    except BaseException as e:
                        box["exc"] = e

                import threading

                t = threading.Thread(target=probe, name="deep-probe")
                t.start()
                t.join()
                if "exc" in box:
                    raise box["exc"]
            elif k == "serve_mt":
                import random

                from .core import func_adl_src
                from .preempt import Preempt

                asts = [parse_query(q) for q in op["qs"]]
                refs = [self.refs_for(q) for q in op["qs"]]
                pr = Preempt(random.Random(op["seed"]), op["p"], func_adl_src().rstrip("/") + "/func_adl/")
                if op.get("opcodes"):
                    # bytecode granularity, race-directed: a thread about to write a module
                    # global is parked there while the others go on (sim/preempt.py)
                    pr.opcodes = True
                    pr.p = op["p"] / 60.0
                    pr.directed = 0.005
                    pr.max_switches = 6000
                with _roomy_stack():
                    res = pr.run([(lambda a=a: simplify(self.mod, a)) for a in asts])
                self.stat("fault_threads_inside_the_library")
                self.stat("thread_switches_inside_the_library", pr.switches)
                self.events.append(f"serve_mt|{pr.switches}")
                for q, rf, (st, val) in zip(op["qs"], refs, res):
                    if st == "exc":
                        if isinstance(val, Exception):
                            self.stat("simplifier_raised")  # totality is C18's business
                            continue
                        raise val
                    self.stat("served")
                    for i, (d, r) in enumerate(zip(self.data, rf)):
                        if r[0] != "ok":
                            continue
                        g = ev(val, d)
                        if g[0] == "budget":
                            continue
                        self.stat("evals_compared")
                        if g != r:
                            # alone, the same query is simplified correctly?
                            alone = ev(simplify(self.mod, parse_query(q)), d)
                            hd = alone == r
                            raise Violation("C02/history-dependent-value" if hd else "C02/value", {
                                "history_dependent": hd, "origin": "threads", "query": q,
                                "simplified": to_text(val), "dataset": i,
                                "original_value": repr(r)[:200], "simplified_value": repr(g)[:200],
                                "what": "simplified while another thread was simplifying another query"})
            elif k == "serve_bad":
                inst = None
                if self.case["config"].get("reuse_instance"):
                    if self.inst is None:
                        self.inst = self.mod.simplify_chained_calls()
                    inst = self.inst
                try:
                    simplify(self.mod, parse_query(op["q"]), inst)
                    self.stat("bad_query_accepted")
                except Exception as ex:
                    self.stat("fault_query_rejected_mid_rewrite")
                    self.events.append(f"bad|{type(ex).__name__}")
            elif k == "warm":
                wa = parse_query(WARM_QUERY)
                for i in range(op["k"]):
                    if op.get("distinct"):
                        # volume: hundreds of DIFFERENT queries (whatever is kept per query
                        # fills up, wraps around or gets evicted)
                        wa = parse_query(WARM_DISTINCT[i % len(WARM_DISTINCT)].format(i=i))
                    simplify(self.mod, wa)
                self.stat("fault_warm_up_distinct" if op.get("distinct") else "fault_warm_up")
                self.events.append(f"warm|{counter_of(self.mod)}")


def run_epoch(case, ops, state):
    "Runs in a process forked from the pristine worker; returns the durable state."
    import sys

    sys.setrecursionlimit(case["config"].get("recursion_limit", 3000))
    n = Node(case, state)
    viol = None
    sid = None
    if case["config"].get("lifetime"):
        from .simid import SimId

        sid = SimId(Streams(mix(case.get("seed", 0), "simid", len(n.events))).get("simid"))
        sid.install()
    try:
        n.run(ops)
    except Violation as v:
        viol = {"class": v.cls, "detail": v.detail}
    finally:
        if sid is not None:
            sid.uninstall()
            if sid.reused:
                n.stat("fault_lifetime_id_reused", sid.reused)
    return {"stats": n.stats, "served": n.served, "events": n.events, "resolved": n.resolved,
            "restarted": n.restarted_since_argn_made, "violation": viol}


class _Final:
    pass


def execute(case):
    from .core import isolated

    # split the history into epochs at every restart: each epoch is a new process
    epochs = [[]]
    for op in case["ops"]:
        if op["op"] == "restart" and epochs[-1]:
            epochs.append([])
        epochs[-1].append(op)
    state = None
    viol = None
    for ops in epochs:
        state = isolated(run_epoch, case, ops, state)
        viol = state.pop("violation")
        if viol is not None:
            break
    n = _Final()
    n.stats, n.served, n.events, n.resolved = (state["stats"], state["served"], state["events"],
                                               state["resolved"])
    n.stats["epochs_started"] = n.stats.get("epochs_started", 0) + len(epochs)
    kinds = [o["op"] for o in case["ops"]]
    texts = "\n".join(o.get("q", "") for o in case["ops"])
    nontrivial = any(k in ("restart", "roundtrip", "reserve", "extend", "serve_bad", "serve_deep")
                     for k in kinds) or bool(
        n.stats.get("served_with_argN_binder"))
    if viol is not None:
        viol["detail"] = json.loads(_ADDR.sub("0x?", json.dumps(viol["detail"], default=repr)))
        viol["digest"] = hashlib.sha1(
            (viol["class"] + json.dumps(viol["detail"], sort_keys=True)).encode()).hexdigest()[:12]
    extra = {}
    res = {}
    if case.get("want_resolved"):
        res["resolved_ops"] = n.resolved + case["ops"][len(n.resolved):]
    if viol is not None:
        extra["history_dependent_findings" if viol["detail"]["history_dependent"]
              else "history_independent_findings"] = 1
    return {
        **res,
        "violation": viol,
        "stats": n.stats,
        "fingerprint": hashlib.sha1((",".join(kinds) + texts).encode()).hexdigest()[:12],
        "state_fp": hashlib.sha1("\n".join(r["out"] for r in n.served).encode()).hexdigest()[:12],
        "log_digest": hashlib.sha256("\n".join(n.events).encode()).hexdigest()[:16],
        "nontrivial": nontrivial,
        "sim_time": 0.0,
        "steps": 0,
        "choice_points": 0,
        "n_ops": len(kinds),
        "prefix4": hashlib.sha1(",".join(kinds[:4]).encode()).hexdigest()[:12],
        "extra": extra,
    }


def op_simplifications(op):
    out = []
    if op["op"] == "warm" and op["k"] > 1:
        out.append({**op, "k": op["k"] - 1})
        out.append({**op, "k": 1})
    return out


def signature(case, viol):
    d = viol["detail"]
    return (f"{viol['class']} :: history_dependent={d.get('history_dependent')} :: "
            + ",".join(o["op"] for o in case["ops"]))


# ---------------------------------------------------------------------------------------------
# query-text reduction for the shrinker: replace one sub-expression by one of its children
# ---------------------------------------------------------------------------------------------
class _ReplaceNth(ast.NodeTransformer):
    def __init__(self, n, pick):
        self.n, self.pick, self.i, self.done = n, pick, -1, False

    def visit(self, node):
        if isinstance(node, ast.expr) and not self.done:
            self.i += 1
            if self.i == self.n:
                kids = _kids(node, at_root=(self.i == 0))
                if self.pick < len(kids):
                    self.done = True
                    return kids[self.pick]
        return super().visit(node)


def _stage(node):
    "(op, source, lambda) of a Select/Where/SelectMany call in function or method form."
    if not isinstance(node, ast.Call):
        return None
    if isinstance(node.func, ast.Name) and node.func.id in ("Select", "Where", "SelectMany") \
            and len(node.args) == 2:
        return node.func.id, node.args[0], node.args[1]
    if isinstance(node.func, ast.Attribute) and node.func.attr in ("Select", "Where", "SelectMany") \
            and len(node.args) == 1:
        return node.func.attr, node.func.value, node.args[0]
    return None


def _kids(node, at_root=False):
    """Type-preserving replacements only, so that a reduced query stays inside the claimed
    family (closed and type-correct): a filter stage by its source, an int expression by an
    operand or a constant, a conditional by a branch, a projection out of a literal by the
    projected element; at the root of the query also Select/SelectMany by their source."""
    kids = []
    st = _stage(node)
    if st is not None and (st[0] == "Where" or at_root):
        kids.append(st[1])
    if isinstance(node, ast.BinOp):
        kids += [node.left, node.right, ast.Constant(value=1)]
    elif isinstance(node, ast.IfExp):
        kids += [node.body, node.orelse]
    elif isinstance(node, ast.BoolOp):
        kids += list(node.values)
    elif isinstance(node, ast.Compare):
        kids.append(ast.Constant(value=True))
    elif isinstance(node, ast.Subscript) and isinstance(node.slice, ast.Constant):
        v, k = node.value, node.slice.value
        if isinstance(v, (ast.Tuple, ast.List)) and isinstance(k, int) and 0 <= k < len(v.elts):
            kids.append(v.elts[k])
        if isinstance(v, ast.Dict):
            kids += [val for key, val in zip(v.keys, v.values)
                     if isinstance(key, ast.Constant) and key.value == k]
    elif isinstance(node, ast.Attribute) and isinstance(node.value, ast.Dict):
        kids += [val for key, val in zip(node.value.keys, node.value.values)
                 if isinstance(key, ast.Constant) and key.value == node.attr]
    elif isinstance(node, ast.Call):
        f = node.func
        if (isinstance(f, ast.Name) and f.id == "Count") or (
                isinstance(f, ast.Attribute) and f.attr == "Count" and not node.args):
            kids.append(ast.Constant(value=1))
        if isinstance(f, ast.Lambda) and len(node.args) == 1 and not node.keywords:
            p = f.args.args[0].arg
            if not any(isinstance(n, ast.Name) and n.id == p for n in ast.walk(f.body)):
                kids.append(f.body)
    return kids


def query_reductions(text, limit=400):
    try:
        tree = ast.parse(text, mode="eval")
    except SyntaxError:
        return
    n_expr = sum(1 for n in ast.walk(tree.body) if isinstance(n, ast.expr))
    made = 0
    seen = {text}
    for n in range(n_expr):
        for pick in range(4):
            t = _ReplaceNth(n, pick)
            new = t.visit(ast.parse(text, mode="eval"))
            if not t.done:
                break
            try:
                out = ast.unparse(ast.fix_missing_locations(new))
            except Exception:
                continue
            if out in seen or len(out) >= len(text):
                continue
            seen.add(out)
            made += 1
            yield out
            if made >= limit:
                return


def case_simplifications(case):
    "Cases with one served query reduced (the reduced text stands for itself)."
    for i, op in enumerate(case["ops"]):
        if op["op"] != "serve":
            continue
        base = op.get("for", op["q"])
        if base == op["q"]:
            for t in query_reductions(op["q"]):
                ops = list(case["ops"])
                ops[i] = {"op": "serve", "q": t}
                yield {**case, "ops": ops}
        else:
            # a round-tripped text: reduce the text and let it stand for itself
            ops = list(case["ops"])
            ops[i] = {"op": "serve", "q": op["q"]}
            yield {**case, "ops": ops}
