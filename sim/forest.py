"""Engine `forest`: one history machine over a forest of streams, four oracles (C04 C11 C12 C16).

generate(prop, seed, tier) -> case   (pure function of its arguments; JSON-able)
execute(case)              -> result (pure function of the case and the code under test)

A case is {property, engine, config, ops, sched_seed}.  Operand references in ops are integers
taken modulo the number of live objects of that kind, so every subsequence of a valid op list
is a valid op list (ddmin needs nothing else).

Real code: all of func_adl, make_it_sync.make_sync, asyncio Task/Future/sleep/wait_for,
inspect/linecache/tokenize.  Stubs: event-loop clock + selector (SimLoop), thread pool
(SimThreadPool), back ends (FakeDataset peers), the source disk in the quick tier.
"""
import ast
import asyncio
import contextvars
import dataclasses
import hashlib
import json
import os
import re
import shutil
import sys
import tempfile
import threading
from typing import Any

from . import client as cl
from . import linq_eval as le
from . import vloop
from .core import Streams, crash_at, crash_exception, mix, small_stack

ENGINE_VERSION = 1
_ADDR = re.compile(r"0x[0-9a-fA-F]+")
RULE = ("one case = one seeded history (<=48 ops over <=4 fake datasets: derive by string / fresh AST / "
        "shared AST object / Python call site, MetaData, QMetaData, terminals, failing derives, "
        "rebinding, source touches, sync and concurrent executions with latency/error/stall/"
        "cancel/timeout plans; crash points = an asynchronous exception at the k-th library line "
        "of a builder op, a look-up or a value() call; object lifetime = streams dropped, "
        "collections forced, call sites in notebook cells / helper functions, id() numbers of "
        "dead objects re-used inside the package; re-entrancy = executors, type callbacks and "
        "captured objects that use the library while the outer operation is in progress) "
        "run under one seeded schedule of the virtual-time loop; "
        "non-trivial = the run fired at least one fault, or completed executions out of start "
        "order, or rebound a captured name, or reused a shared AST object, or issued consecutive "
        "QMetaData calls; distinct = different SHA-1 of (op-kind sequence + schedule trace)")
COMPONENTS_REAL = ["func_adl (all modules, imported from the working tree)",
                   "make_it_sync.make_sync", "asyncio Task/Future/sleep/wait_for/timeout",
                   "inspect/linecache/tokenize source recovery", "a real thread per value()"]
COMPONENTS_STUB = ["event-loop clock and selector (SimLoop: virtual time, seeded ready-handle pick)",
                   "ThreadPoolExecutor inside make_it_sync (SimThreadPool: start+join)",
                   "back ends (FakeDataset peers / override executors with planned latency, "
                   "error, stall)", "source disk in the quick tier (linecache entry, mtime None)",
                   "id() as seen by the package's own modules (SimId: numbers of dead objects are "
                   "handed to new ones by the PRNG; only in runs with the lifetime fault family)"]
ASSUMPTIONS = [
    "executors never mutate the AST they receive",
    "ast.dump (fields only) is the observation of a query AST",
    "CPython 3.12 BaseEventLoop private members (_ready, _scheduled, _run_once)",
    "threads are pre-empted between source lines / bytecodes of the package only (not inside "
    "make_it_sync, asyncio or the standard library); module-level locks of the package are "
    "simulated, locks held elsewhere are not",
    "injected asynchronous exceptions are never delivered on a with-header line or the first "
    "line of a with body (no real one can land between __enter__ / body / __exit__)",
]
REQUIRED_PROBES = {
    "C11": ["probe_failed_derive", "derive_shared", "empty_metadata_made", "exec_sync",
            "fault_crash_point_fired", "probe_lifetime_stream_object_died",
            "fault_reentrant_executor_observe", "streams_derived_inside_an_executor"],
    "C12": ["probe_completion_order_differs_from_start_order", "fault_multi_thread_block",
            "probe_threads_completed_out_of_issue_order",
            "probe_same_stream_executed_concurrently", "probe_two_root_query",
            "probe_rootless_query", "fault_stall_then_cancel", "result_exc",
            "fault_crash_point_in_value", "calls_nested_in_an_executor",
            "fault_lifetime_id_reused"],
    "C16": ["probe_qmetadata_twice_in_a_row", "qmd_repeated_key", "c16_backend_checks",
            "fault_crash_point_in_lookup", "plain_lookups"],
    "C04": ["probe_site_reinvoked_after_rebinding", "site_blocked_calls",
            "c04_executor_lambda_checks", "c04_multi_generator_sites",
            "c04_def_function_sites", "fault_lifetime_site_in_fresh_cell",
            "fault_reentrant_capture", "fault_crash_point_fired"],
}
LAT = [0.0, 0.001, 1.0, 60.0, 3600.0]
KEYS = ["k0", "k1", "k2", "K0", "title", "never"]
QVALS = [1, 2, 3, "x", [1, 2], "1", 1.0, 0, "", False, [], 0.3, 0.1 + 0.2, 831.76, 831.7600001,
         ["@array", 1.0, 2.0], ["@array", 3.0, 4.0], ["@array", 1.0, 2.0]]


class ArrayLike:
    """A value whose comparisons are element-wise (like an array's): `a != b` is another
    ArrayLike and has no truth value."""

    def __init__(self, xs):
        self.xs = list(xs)

    def __eq__(self, o):
        return ArrayLike([x == y for x, y in zip(self.xs, getattr(o, "xs", [o] * len(self.xs)))])

    def __ne__(self, o):
        return ArrayLike([x != y for x, y in zip(self.xs, getattr(o, "xs", [o] * len(self.xs)))])

    def __bool__(self):
        raise ValueError("The truth value of an array with more than one element is ambiguous")

    __hash__ = None

    def __repr__(self):
        return f"ArrayLike({self.xs})"


def qvalue(v):
    "Decode a generated query-metadata value (a fresh object each time for array-likes)."
    if isinstance(v, list) and v[:1] == ["@array"]:
        return ArrayLike(v[1:])
    return v


def same_qvalue(got, exp):
    if isinstance(got, ArrayLike) or isinstance(exp, ArrayLike):
        return got is exp
    return got == exp

# ---------------------------------------------------------------------------------------------
# lambda catalog (opaque specs: never evaluated; chosen to walk every in-place-editing path)
# ---------------------------------------------------------------------------------------------
UNTYPED = [
    ("Select", "lambda e: e.x"),
    ("Select", "lambda e: e.jets.Select(lambda j: j.pt)"),
    ("Select", "lambda e: (e.x, e.jets)"),
    ("Select", "lambda e: {'a': e.x, 'b': e.jets.Count()}"),
    ("Select", "lambda e: [j.pt for j in e.jets if j.eta < 1]"),
    ("Select", "lambda e: e.jets.Where(lambda j: j.pt > 2).Select(lambda j: j.eta)"),
    ("Select", "lambda e: (lambda q: q + 1)(e.x)"),
    ("Where", "lambda e: e.x > 1"),
    ("Where", "lambda e: e.x > 1 and e.y < 2"),
    ("Where", "lambda e: e.jets.Count() > 1"),
    ("SelectMany", "lambda e: e.jets"),
    ("SelectMany", "lambda e: e.jets.Select(lambda j: j.pt)"),
    # a user function that happens to be called like a query operator, inside a lambda
    ("Select", "lambda e: MetaData(e.jets, e.info)"),
    ("Select", "lambda e: e.jets.Select(lambda j: Select(j.tracks, j.n))"),
]
TYPED = [
    ("Select", "lambda e: e.jets()"),
    ("Select", "lambda e: e.jets().Select(lambda j: j.pt())"),
    ("Select", "lambda e: [j.eta(b=3) for j in e.jets() if j.pt() > 1]"),
    ("Select", "lambda e: (e.met(), e.jets())"),
    ("Select", "lambda e: {'a': e.met(), 'b': e.jets().Count()}"),
    ("Select", "lambda e: fsq(e.met())"),
    ("Select", "lambda e: fpl(x=e.met())"),
    ("Select", "lambda e: DC(e.met(), b=e.met()).a"),
    ("Select", "lambda e: e.jets().Where(lambda j: j.pt() > 2).Select(lambda j: j.eta())"),
    ("Select", "lambda e: e.jets(name='fwd').Select(lambda j: j.eta(2))"),
    ("Select", "lambda e: e.met() + 1"),
    ("Select", "lambda e: e.info['fork'](55)"),
    ("Select", "lambda e: e.jets().Select(lambda j: j.pt() + e.info['a'](1))"),
    ("Where", "lambda e: e.info['w'](2, 3) > 1"),
    ("Select", "lambda j: j.pt()"),
    ("Select", "lambda j: j.eta(b=2)"),
    ("Where", "lambda e: e.met() > 1"),
    ("Where", "lambda e: e.jets().Count() > 1"),
    ("Where", "lambda e: fsq(e.met()) > 2 and e.met() < 5"),
    ("Where", "lambda j: j.pt() > 1"),
    ("SelectMany", "lambda e: e.jets()"),
    ("SelectMany", "lambda e: e.jets().Select(lambda j: j.pt())"),
    ("SelectMany", "lambda e: e.jets().Where(lambda j: j.eta() > 0)"),
    # reach (tools/reach.py): integer arithmetic, conditionals, subscripts of tuples / dict
    # displays / dataclasses, unary operators - type-follower paths no earlier entry visited
    ("Select", "lambda e: e.jets().Count() + 1"),
    ("Select", "lambda e: e.jets().Count() / 2"),
    ("Select", "lambda e: e.jets().Count() * 2 - 1"),
    ("Select", "lambda e: 1 if e.met() > 1 else 2.5"),
    ("Select", "lambda e: e.met() if e.jets().Count() > 1 else 0"),
    ("Select", "lambda e: (e.met(), e.jets())[1]"),
    ("Select", "lambda e: (e.met(), e.jets())[0] + 1"),
    ("Select", "lambda e: {'a': e.met(), 'b': e.jets()}.b"),
    ("Select", "lambda e: {'a': e.met(), 'b': e.jets()}['a']"),
    ("Select", "lambda e: -e.met()"),
    ("Select", "lambda e: e.jets()[0].pt()"),
    ("Select", "lambda e: DC(e.met(), b=e.met())['a']"),
    ("Where", "lambda e: not (e.met() > 1)"),
    ("Select", "lambda e: e.jets().Select(lambda j: (j.pt(), j.eta()))"),
    ("Select", "lambda e: e.jets().Select(lambda j: {'p': j.pt(), 'q': j.eta(b=5)})"),
    ("Select", "lambda e: e.jets().First().pt()"),
    ("Select", "lambda e: e.jets().Last().pt()"),
    ("Select", "lambda e: e.jets().Select(lambda j: j.eta()).First() + 1"),
]
FAIL_KINDS = ["where_nonbool", "missing_arg", "cb_raise", "bad_lambda"]
# failures INSIDE a nested stream-method call that the type follower makes for a lambda nested in
# the lambda it is following (own PRNG stream, see FAULT_KINDS2)
NESTED_FAIL_KINDS = ["nested_where_nonbool", "nested_cb_raise", "nested_bad_lambda"]
TERMS = ["pandas", "awkward", "root", "parquet"]
FAULT_KINDS = [
    "exec_error", "stall_cancel", "cancel", "timeout", "sync_in_loop", "derive_fail",
    "shared_ast", "typed", "unbind", "nontransportable", "touch", "override", "dup_exec",
    "threads", "capture_fault", "small_stack", "caller_interrupt", "caller_edit",
    "backend_helpers",
]

# fault kinds added later draw from their own PRNG sub-stream ("faults2"), so that the cases of
# runs that do not enable them are exactly what they were before
FAULT_KINDS2 = ["crash_point", "lifetime", "reentrancy"]

SAMPLES = [
    le.Rec(
        a=i,
        b=2 * i + 1,
        tag="tagA" if i % 2 else "tagB",
        jets=le.Seq([le.Rec(pt=j * 3 + i, eta=j - 1, A=j + 7, m=j * 1.5, In=le.Rec(B=j),
                            trk=le.Rec(id=10 * i + j, value=j + 0.5, attr=j % 2))
                     for j in range(i % 4)]),
        # attribute names that also are field names of ast nodes (id, value, attr, slice, ...)
        hit=le.Rec(id=7 * i + 1, value=i + 0.25, attr=i % 3, ctx=i, args=2 * i),
        # ... and names that the captured class / module of the client program have (K0.A, simcfg.m)
        A=100 + i, m=0.5 * i, In=le.Rec(B=3 * i),
        hits=le.Seq([le.Rec(value=i + k, slice=k, id=k) for k in range(2)]),
    )
    for i in range(6)
]

# ---------------------------------------------------------------------------------------------
# generation
# ---------------------------------------------------------------------------------------------
PROFILES = {
    # op weights per property
    "C11": dict(derive=35, md=9, qmd=8, term=5, fail=8, rebind=3, unbind=0, touch=1, open_ds=3,
                exec_sync=10, spawn=12, cancel=3, sleep=5, drain=1, join=1, rootless=0, mt=2,
                lookup_deep=1),
    "C12": dict(derive=24, md=9, qmd=4, term=6, fail=3, rebind=1, unbind=0, touch=0, open_ds=2,
                exec_sync=10, spawn=30, cancel=6, sleep=8, drain=2, join=2, rootless=1, mt=5),
    "C16": dict(derive=24, md=5, qmd=32, term=5, fail=2, rebind=1, unbind=0, touch=0, open_ds=1,
                exec_sync=9, spawn=8, cancel=1, sleep=3, drain=1, join=0, rootless=0,
                lookup_deep=9),
    "C04": dict(derive=40, md=2, qmd=2, term=1, fail=0, rebind=26, unbind=4, touch=4,
                exec_sync=8, spawn=6, cancel=1, sleep=2, drain=1, join=0, rootless=0),
}
MODE_W = {
    "C11": dict(str=25, ast=20, shared=35, site=20),
    "C12": dict(str=40, ast=20, shared=20, site=20),
    "C16": dict(str=40, ast=20, shared=20, site=20),
    "C04": dict(str=6, ast=3, shared=3, site=88),
}


def _wchoice(rng, weights: dict):
    items = [(k, w) for k, w in weights.items() if w > 0]
    t = rng.random() * sum(w for _, w in items)
    for k, w in items:
        t -= w
        if t < 0:
            return k
    return items[-1][0]


def gen_site(rng, boom_ok=False):
    "One client call site: operator, lambda text, and the names it truly captures."
    if boom_ok and rng.random() < 0.12:
        # a "crash" in the middle of the capture step: resolving BOOM.val raises.  The lambda's
        # parameter is often named like a captured variable (state left behind would show there)
        e = rng.choice(["e", "G0", "c0", "c1", "G1", "K0"])
        body = rng.choice([f"{e}.a + BOOM.val", f"{e}.jets.Select(lambda j: j.pt + BOOM.val)",
                           f"{e}.jets.Select(lambda G0: G0.pt + BOOM.val)"])
        return {"op": "Select", "lam": f"lambda {e}: {body}", "free": [], "shadow": e, "boom": True}
    free = []
    binders = {"e": "e", "j": "j", "k": "k"}
    shadow = None
    module_scope = rng.random() < 0.2
    if rng.random() < 0.35:
        which = rng.choice(["e", "j", "j", "k"])
        shadow = rng.choice(["G0", "G1", "K0", "simcfg", "G2"] if module_scope
                            else ["G0", "G1", "c0", "c1", "K0", "simcfg", "G2"])
        binders[which] = shadow
    e, j, k = binders["e"], binders["j"], binders["k"]
    banned = {shadow} if shadow else set()
    flags = {}

    def v():
        names = (["G0", "G1", "K0.A", "K0.In.B", "simcfg.m", "@c1", "@c1", "max"] if module_scope
                 else ["G0", "G1", "K0.A", "K0.In.B", "simcfg.m", "c0", "c1", "min", "max"])
        cands = [n for n in names if n.split(".")[0] not in banned]
        n = rng.choice(cands)
        if n not in free:
            free.append(n)
        return n.lstrip("@")  # at module level the text `c1` means the module global

    def tag():
        if "G2" in banned:
            return "'tagA'"
        if "G2" not in free:
            free.append("G2")
        return "G2"

    op = rng.choice(["Select", "Select", "Select", "Where", "SelectMany"])
    if op == "Select":
        forms = [
            lambda: f"{e}.a + {v()}",
            lambda: f"{e}.b * {v()} if {e}.a > {v()} else {v()}",
            lambda: f"{e}.jets.Select(lambda {j}: {j}.pt * {v()} + {e}.b)",
            lambda: f"{e}.jets.Where(lambda {j}: {j}.pt > {v()}).Count()",
            lambda: f"[{j}.pt + {v()} for {j} in {e}.jets if {j}.eta < {v()}]",
            lambda: f"{e}.jets.Select(lambda {j}: {e}.jets.Where(lambda {k}: {k}.pt > {j}.pt + {v()}).Count())",
            lambda: f"[[{k}.pt + {j}.pt + {v()} for {k} in {e}.jets] for {j} in {e}.jets]",
            lambda: f"({e}.a, {v()})[1] + {e}.b",
            lambda: f"(lambda {k}: {k} + {v()})({e}.a)",
            lambda: f"{{'p': {e}.a + {v()}, 'q': {v()}}}",
            lambda: f"({e}.a + {v()}, {e}.tag == {tag()})",
            lambda: f"[{j}.pt for {j} in {e}.jets if {j}.pt > {v()} if {j}.eta < {v()}]",
        ]
        # generator expressions (their own code object, unlike list comprehensions in 3.12)
        forms += [
            lambda: f"sum({j}.pt + {v()} for {j} in {e}.jets)",
            lambda: f"sum({j}.pt for {j} in {e}.jets if {j}.eta < {v()})",
            lambda: f"{e}.jets.Select(lambda {j}: sum({k}.pt * {v()} for {k} in {e}.jets if {k}.pt > {j}.pt))",
        ]
        # the same name bound at two nesting levels, and used again after the inner scope ends
        forms += [
            lambda: f"{e}.jets.Select(lambda {k}: {k}.pt).Select(lambda {j}: {e}.jets.Where(lambda {j}: {j}.pt > {v()}).Count() * {j})",
            lambda: f"{e}.jets.Select(lambda {k}: {k}.pt).Select(lambda {j}: {j} + {e}.jets.Select(lambda {j}: {j}.eta + {v()}).Count() + {j})",
            lambda: f"{e}.jets.Select(lambda {k}: {k}.pt).Select(lambda {j}: [{j}.eta for {j} in {e}.jets if {j}.pt > {v()}].Count() + {j})",
        ]
        # attributes of bound names that are spelled like fields of ast nodes
        forms += [
            lambda: f"{e}.hit.id + {v()}",
            lambda: f"{e}.hit.value * {v()} + {e}.hit.attr",
            lambda: f"{e}.jets.Select(lambda {j}: {j}.trk.id + {v()})",
            lambda: f"{e}.jets.Where(lambda {j}: {j}.trk.value > {v()}).Count() + {e}.hit.args",
            lambda: f"{e}.hits[0].value + {v()} + {e}.hits[1].slice",
            lambda: f"[{j}.trk.attr + {e}.hit.ctx + {v()} for {j} in {e}.jets]",
        ]
        # a lambda called on the spot with a captured value, whose parameter name is bound
        # again further in (the library resolves such calls while it captures)
        def unused(text_fn):
            def form():
                flags["arg_unused"] = True  # the body never reads the parameter
                return text_fn()
            return form

        forms += [
            unused(lambda: f"(lambda {k}: {e}.jets.Select(lambda {k}: {k}.pt))({v()})"),
            unused(lambda: f"(lambda {k}: [{k}.pt + {v()} for {k} in {e}.jets])({v()})"),
            lambda: f"(lambda {k}: {k})({v()}) + {e}.a",
            lambda: f"(lambda {k}: {e}.jets.Select(lambda {j}: {j}.pt + {k}))({v()})",
        ]
        # nested lambdas whose parameter is positional-only or a *args tuple
        forms += [
            lambda: f"{e}.jets.Select(lambda {j}, /: {j}.pt + {v()})",
            lambda: f"{e}.jets.Where(lambda {j}, /: {j}.pt > {v()}).Count()",
            lambda: f"{e}.jets.Select(lambda *{j}: {j}[0].pt * {v()})",
        ]
        # parameter defaults of a nested lambda: python evaluates them in the ENCLOSING scope, so
        # `lambda j, cut=cut: ...` (the idiom that freezes a loop variable) reads the captured
        # `cut` in the default and the parameter `cut` in the body
        def plain():
            cands = [n for n in (["G0", "G1"] if module_scope else ["G0", "G1", "c0", "c1"])
                     if n not in banned and n not in (e, j, k)]
            n = rng.choice(cands or ["G1"])
            if n not in free:
                free.append(n)
            return n

        def dflt(fmt):
            def form():
                return fmt.format(e=e, j=j, k=k, n=(plain() if "{n}" in fmt else ""),
                                  v=(v() if "{v}" in fmt else ""))
            return form

        forms += [
            dflt("{e}.jets.Select(lambda {j}, {n}={n}: {j}.pt + {n})"),
            dflt("{e}.jets.Where(lambda {j}, *, {n}={n}: {j}.pt > {n}).Count()"),
            dflt("{e}.jets.Select(lambda {j}, q={v}: {j}.pt * q + {e}.a)"),
            dflt("{e}.jets.Select(lambda {j}, {n}={n} + {v}: {j}.eta + {n})"),
        ]
        # a method called on a captured value (the receiver is a free variable like any other)
        forms += [
            lambda: f"{e}.a + {v()}.__abs__()",
            lambda: f"{e}.jets.Where(lambda {j}: {j}.pt > {v()}.__abs__()).Count()",
            lambda: f"[{j}.pt * {v()}.__abs__() + {v()}.real for {j} in {e}.jets]",
            # (an attribute chain that does not exist: python would fail, the query must at
            # least not keep the variable's name)
            lambda: f"{e}.a + {v()}.scale.value",
            lambda: f"{e}.jets.Select(lambda {j}: {j}.pt * {v()}.scale.factor())",
        ]
        # a bound name spelled like a captured class / module, used with the very attribute the
        # captured object has (`lambda K0: K0.A` - K0 the parameter, not the class)
        forms += [
            lambda: f"{e}.A * {v()} + {e}.m",
            lambda: f"{e}.jets.Select(lambda {j}: {j}.A + {v()})",
            lambda: f"{e}.jets.Where(lambda {j}: {j}.m > {v()}).Count() + {e}.In.B",
            lambda: f"[{j}.A + {j}.In.B for {j} in {e}.jets if {j}.m < {v()}]",
        ]
        # comprehensions with several generators (lowered to nested Selects: the comparison
        # with Python's flat result is made on flattened values), and set / dict comprehensions
        # (left as they are, with their captured names replaced)
        def multi(text_fn):
            def form():
                flags["flatten"] = True
                return text_fn()
            return form

        forms += [
            multi(lambda: f"[{j}.pt + {k}.pt + {v()} for {j} in {e}.jets for {k} in {e}.jets if {k}.eta < {v()}]"),
            multi(lambda: f"[{j}.pt * {k} for {j} in {e}.jets for {k} in [{v()}, {e}.a, {v()}]]"),
            multi(lambda: f"[{k} + {j}.pt for {j} in {e}.jets if {j}.pt > {v()} for {k} in [{j}.eta, {v()}]]"),
            lambda: f"{{{j}.eta: {j}.pt + {v()} for {j} in {e}.jets}}",
            lambda: f"{{{j}.pt + {v()} for {j} in {e}.jets if {j}.eta < {v()}}}",
            lambda: f"{{{j}.eta: {k} + {v()} for {j} in {e}.jets for {k} in [{j}.pt, {v()}]}}",
        ]
        if shadow in ("G0", "c0", "c1") and binders["j"] == shadow and not module_scope:
            # the shadowing binder's scope ends; afterwards the name is the captured one again
            def after_scope():
                if shadow not in free:
                    free.append(shadow)
                return f"{e}.jets.Where(lambda {j}: {j}.pt > {v()}).Count() + {shadow}"

            forms += [after_scope] * 4
        body = rng.choice(forms)()
    elif op == "Where":
        forms = [
            lambda: f"{e}.a > {v()}",
            lambda: f"{e}.a + {v()} > {v()} and {e}.b < {v()}",
            lambda: f"{e}.tag == {tag()}",
            lambda: f"{e}.jets.Where(lambda {j}: {j}.pt > {v()}).Count() > 0",
            lambda: f"{e}.a > {v()} or {e}.tag != {tag()}",
            lambda: f"{e}.hit.id > {v()}",
            lambda: f"{e}.a > {v()}.__abs__()",
            lambda: f"{e}.hits[0].value > {v()} and {e}.hit.attr < {v()}",
        ]
        body = rng.choice(forms)()
    else:
        forms = [
            lambda: f"{e}.jets.Select(lambda {j}: {j}.pt + {v()})",
            lambda: f"{e}.jets.Where(lambda {j}: {j}.pt > {v()})",
            lambda: f"[{j}.pt * {v()} for {j} in {e}.jets]",
        ]
        body = rng.choice(forms)()
    site = {"op": op, "lam": f"lambda {e}: {body}", "free": sorted(free), "shadow": shadow}
    if module_scope:
        site["scope"] = "module"
    site.update(flags)
    if rng.random() < 0.15:
        # the callable is a one-line `def` (with or without a docstring) instead of a lambda
        site["supply"] = rng.choice(["def", "def_doc"])
    return site


def _gen_value(rng, name, allow_bad):
    if allow_bad and rng.random() < 0.18:
        return rng.choice([["list", [1, 2]], ["tuple", [3, 4]], ["dict", [["a", 1]]], ["obj"],
                           ["none"]])
    if allow_bad and rng.random() < 0.08:
        # instances of SUBCLASSES of the transportable types: members of a (str, Enum) / (int,
        # Enum) mix-in, a float subclass with a unit in its repr.  They are strs / ints /
        # floats: what counts is the value, never their str() or repr()
        if name == "G2":
            return ["strenum", rng.choice(["tagA", "tagB", "x"])]
        return rng.choice([["intenum", rng.choice([0, 2, 17])], ["gev", rng.choice([2.5, 40.0])]])
    if name == "G2":  # only ever compared with ==/!=, so any transportable type is fine
        r = rng.random()
        if r < 0.7:
            return ["str", rng.choice(["tagA", "tagB", "it's", "x"])]
        if r < 0.8:
            return ["bool", rng.choice([True, False])]
        return ["int", rng.choice([0, 7])] if r < 0.9 else ["bytes", rng.choice(["tagA", "b"])]
    # numeric names stay numeric: a str/bool in a conditional branch is a *designed* refusal
    # of the type follower (C10), not a capture failure
    if rng.random() < 0.72:
        return ["int", rng.choice([0, 1, 2, 5, 17, 40, -3, 1000003, 10 ** 30, -1])]
    return ["float", rng.choice([0.5, 2.5, -1.25, 40.0, -0.0, 1e400, 1e-300])]


def _gen_plan(rng, faults, sync):
    "Executor plan for one call: [kind, latency, extra]."
    kinds = ["ok"] * 5
    if "exec_error" in faults:
        kinds += ["error"] * 2
    if "stall_cancel" in faults and not sync:
        kinds += ["stall"]
    kind = rng.choice(kinds)
    lat = rng.choice(LAT)
    if kind == "ok":
        return ["ok", lat, rng.choice(["token", "token", "none", "zero", "emptylist"])]
    if kind == "error":
        if rng.random() < 0.15:  # not an Exception
            return ["error", lat, rng.choice(sorted(BASE_ERRS if sync else BASE_ERRS - set(SYNC_ONLY_ERRS)))]
        return ["error", lat, rng.choice(ERR_NAMES)]
    return ["stall", rng.choice([0.5, 30.0, 4000.0]), None]


def generate(prop: str, seed: int, tier: str = "quick", fault_free: bool = False) -> dict:
    st = Streams(mix(seed, "forest", prop))
    w, f, c = st.get("workload"), st.get("faults"), st.get("config")
    # swarm: enabled fault kinds are themselves drawn
    x = st.get("faults2")
    if fault_free:
        faults = []
    else:
        faults = [k for k in FAULT_KINDS if f.random() < 0.6]
        faults += [k for k in FAULT_KINDS2 if x.random() < 0.5]
    # swarm: most runs are short and small; a few are BIG (long histories, many datasets, deep
    # chains, many calls in flight) so that nothing silently depends on the small configuration
    big = (not fault_free) and c.random() < (0.02 if tier == "thorough" else 0.004)
    n_ds = c.randint(5, 8) if big else c.randint(1, 4)
    typed_ok = "typed" in faults and prop != "C04"
    datasets = [{"typed": (c.randrange(4) if typed_ok and c.random() < 0.55 else -1)}
                for _ in range(n_ds)]
    for i, d in enumerate(datasets):
        if not fault_free and c.random() < 0.25:
            d["extra"] = f"file{i}.root"  # the class appends an argument to its own root node
        if not fault_free and c.random() < 0.25:
            d["wrapped"] = True  # executor with a (*args, **kwargs) signature
    catalog = list(UNTYPED) + (list(TYPED) if any(d["typed"] >= 0 for d in datasets) else [])
    pool = [list(c.choice(catalog)) for _ in range(c.randint(3, 8))]
    sites = [gen_site(c, boom_ok="capture_fault" in faults) for _ in range(c.randint(2, 8))]
    config = {
        # the library logs (overwritten metadata, unknown types...): nothing may depend on
        # whether anybody listens
        "log_level": "off" if fault_free else c.choice(["off", "off", "WARNING", "INFO", "DEBUG"]),
        "n_datasets": n_ds,
        "datasets": datasets,
        "pool": pool,
        "sites": sites,
        "faults": faults,
        "real_disk": bool(tier == "thorough" and c.random() < 0.25),
        "step_cap": 200000 if big else 20000,
        "big": big,
        "live_cap": 48 if big else 24,
    }
    if not fault_free:
        # configuration of the process the library runs in (swarm style: nothing may depend on
        # the defaults): warnings turned into errors (-W error), asyncio debug mode, eager task
        # start (3.12 task factory), cyclic gc off / very eager, Python's default recursion limit
        e = st.get("env")
        for d in datasets:
            # the application's dataset class: plain / with a catch-all __getattr__ / with
            # attributes under everyday names (title, name, cache, ...)
            if not d.get("wrapped"):
                d["flavour"] = e.choice(["plain", "plain", "plain", "proxy", "labelled"])
        config["env"] = {
            "warnings_error": e.random() < 0.2,
            "asyncio_debug": e.random() < 0.2,
            "eager_tasks": e.random() < 0.2,
            "gc": e.choice(["default", "default", "default", "off", "eager"]),
            "reclimit": 1000 if (e.random() < 0.25 and not big) else None,
        }
        # how often the checker itself looks keys up between operations (all streams and keys
        # after every step / a random third of the streams / only at the end of the history)
        config["observe"] = x.choice(["all", "all", "all", "sparse", "sparse", "final"])
    weights = dict(PROFILES[prop])
    if "derive_fail" not in faults:
        weights["fail"] = 0
    if "cancel" not in faults:
        weights["cancel"] = 0
    if "unbind" not in faults:
        weights["unbind"] = 0
    if "touch" not in faults:
        weights["touch"] = 0
    if "threads" not in faults:
        weights["mt"] = 0
    if "small_stack" not in faults:
        weights["lookup_deep"] = 0
    if fault_free:
        weights["open_ds"] = 0
    modes = dict(MODE_W[prop])
    if "shared_ast" not in faults:
        modes["shared"] = 0
    n_ops = min(40, 2 + int(w.expovariate(1 / 11.0)))
    if big:
        n_ops = w.randint(60, 160)
    ops = []
    spawned = []
    qhist = {}
    for _ in range(n_ops):
        if ops and "backend_helpers" in faults and ops[-1]["op"] in ("spawn", "exec_sync") \
                and "backend" not in ops[-1]:
            # the executor behaves like a real back end: it runs the library's own helpers
            # (documented not to modify what they are given) on the query it received
            ops[-1]["backend"] = f.choice([False, False, False, False, True, "passes", "passes"])
        if ops and "caller_edit" in faults and ops[-1]["op"] in ("md", "qmd", "term") \
                and "edit_after" not in ops[-1]:
            # the caller keeps the dict / list it passed and changes it afterwards
            ops[-1]["edit_after"] = f.random() < 0.4
        k = _wchoice(w, weights)
        if k == "derive":
            ops.append({"op": "derive", "parent": w.randrange(64), "lam": w.randrange(64),
                        "mode": _wchoice(w, modes)})
            if "small_stack" in faults and w.random() < 0.12:
                # resource fault inside a *derive*: few frames left, so the library may overflow
                # half-way through capturing / type-following / copying
                ops[-1]["stack"] = w.choice([12, 18, 25, 35, 50, 70, 100])
            if big and w.random() < 0.08:  # a deep chain: derive again and again from the newest
                for _ in range(w.randint(10, 30)):
                    ops.append({"op": "derive", "parent": -1, "lam": w.randrange(64),
                                "mode": _wchoice(w, modes)})
        elif k == "md":
            r = w.random()
            if r < 0.45:
                md = {}
            elif r < 0.8:
                md = {w.choice(["x", "y"]): w.randint(0, 3)}
            elif r < 0.93:  # the very blocks the typed models' callbacks add
                md = w.choice([{"m": "evt"}, {"m": "jet_eta"}, {"f": "fsq"}])
            else:  # values whose text is not a literal (str(inf) is a name)
                md = w.choice([{"scale": float("inf")}, {"w": float("-inf"), "x": 1},
                               {"tags": ["a", 1e400]}])
            ops.append({"op": "md", "parent": w.randrange(64), "md": md})
            if w.random() < 0.3:  # stacked wrappers on the stream just made, often identical
                md2 = dict(md) if w.random() < 0.5 else {w.choice(["x", "y"]): w.randint(0, 3)}
                ops.append({"op": "md", "parent": -1, "md": md2})
        elif k == "qmd":
            md = {}
            for _ in range(w.randint(1, 2)):
                k = w.choice(KEYS[:5])
                # repeated keys with equal and different values: often re-use a value that the
                # run already gave this key (set back to an earlier value, set again to the same)
                if qhist.get(k) and w.random() < 0.4:
                    md[k] = w.choice(qhist[k])
                else:
                    md[k] = w.choice(QVALS)
                qhist.setdefault(k, []).append(md[k])
            if w.random() < 0.08:
                md = {}
            ops.append({"op": "qmd", "parent": w.randrange(64), "md": md})
            if "small_stack" in faults and w.random() < 0.15:
                # QMetaData called with few frames left (it looks keys up along the path)
                ops[-1]["stack"] = w.choice([4, 6, 8, 10, 13, 17, 22, 30, 45])
            again = [k for k in md if len(qhist.get(k, [])) > 1]
            if again and "small_stack" in faults and w.random() < 0.3:
                # a key set for the second time, some operators on top, and a look-up of that
                # key (or another QMetaData of it) from deep in the stack
                for _ in range(w.randint(0, 3)):
                    ops.append({"op": "derive", "parent": -1, "lam": w.randrange(64), "mode": "str"})
                fr = w.choice([3, 4, 5, 6, 8, 10, 13, 17, 22])
                if w.random() < 0.6:
                    ops.append({"op": "lookup_deep", "stream": -1, "key": w.choice(again), "stack": fr})
                else:
                    k2 = w.choice(again)
                    ops.append({"op": "qmd", "parent": -1, "md": {k2: w.choice(qhist[k2])},
                                "stack": fr})
            if w.random() < 0.35:  # consecutive calls on the stream just made
                md2 = {w.choice(KEYS[:5]): w.choice(QVALS)}
                ops.append({"op": "qmd", "parent": -1, "md": md2})
        elif k == "open_ds":
            # another dataset object is created in the middle of the history
            ops.append({"op": "open_ds", "typed": (c.randrange(4) if typed_ok and w.random() < 0.4 else -1),
                        "extra": w.choice([None, "late.root", "late.root", "b.root"]),
                        "wrapped": w.random() < 0.25})
        elif k == "lookup_deep":
            # a look-up made deep in the stack: it may overflow, it may not answer wrongly.
            # Mostly for a key the run has set (often more than once), on a recent stream
            key = w.choice(sorted(qhist)) if qhist and w.random() < 0.8 else w.choice(KEYS)
            ops.append({"op": "lookup_deep", "stream": w.choice([-1, -1, -1, w.randrange(64)]),
                        "key": key, "stack": w.choice([3, 5, 7, 9, 12, 16, 21, 28, 40])})
        elif k == "term":
            ops.append({"op": "term", "parent": w.randrange(64), "kind": w.choice(TERMS),
                        "cols": w.choice([[], ["c1"], ["c1", "c2"], "c"]),
                        "alias": w.random() < 0.3})
        elif k == "fail":
            ops.append({"op": "derive_fail", "parent": w.randrange(64),
                        "kind": w.choice(FAIL_KINDS), "lam": w.randrange(64)})
        elif k == "rebind":
            name = w.choice(cl.ALL_NAMES)
            ops.append({"op": "rebind", "name": name,
                        "value": _gen_value(w, name, "nontransportable" in faults)})
        elif k == "unbind":
            ops.append({"op": "unbind", "name": w.choice(cl.ALL_NAMES)})
        elif k == "touch":
            ops.append({"op": "touch", "kind": w.choice(["touch", "rewrite", "append"])})
        elif k == "exec_sync":
            op = {"op": "exec_sync", "stream": w.randrange(64),
                  "titled": w.random() < 0.8,
                  "override": ("override" in faults and w.random() < 0.2),
                  "plan": _gen_plan(f, faults, True)}
            if "small_stack" in faults and f.random() < 0.3:
                op["stack"] = f.choice([20, 30, 45, 70])  # frames for the worker thread
            elif "caller_interrupt" in faults and f.random() < 0.25:
                # the thread blocked in value() is interrupted (SIGINT) while its executor is
                # busy; the abandoned executor finishes later, nobody waits for its answer
                op["interrupt"] = True
            ops.append(op)
        elif k == "spawn":
            si = w.randrange(64)
            if spawned and "dup_exec" in faults and w.random() < 0.3:
                si = w.choice(spawned)
            spawned.append(si)
            via = "sync" if ("sync_in_loop" in faults and w.random() < 0.2) else "async"
            plan = _gen_plan(f, faults, via == "sync")
            tmo = None
            if via == "async" and "timeout" in faults and f.random() < 0.2:
                tmo = f.choice([0.0, 0.5, 30.0, 4000.0])
            op = {"op": "spawn", "stream": si, "via": via, "plan": plan, "timeout": tmo,
                  "override": ("override" in faults and w.random() < 0.15)}
            if via == "sync" and "caller_interrupt" in faults and f.random() < 0.25:
                op["interrupt"] = True
            if "dup_exec" in faults and w.random() < 0.35:
                op["title_pool"] = w.randrange(3)  # a retry / an untitled call: titles repeat
            ops.append(op)
            if w.random() < 0.5:  # a burst: no scheduling point in between
                continue
            ops.append({"op": "sleep", "dt": w.choice(LAT[:4])})
        elif k == "cancel":
            ops.append({"op": "cancel", "task": w.randrange(64),
                        "after": f.choice([0.0, 0.5, 30.0, 4000.0])})
        elif k == "sleep":
            ops.append({"op": "sleep", "dt": w.choice(LAT)})
        elif k == "drain":
            ops.append({"op": "drain"})
        elif k == "join":
            ops.append({"op": "join", "parent": w.randrange(64), "other": w.randrange(64)})
        elif k == "rootless":
            ops.append({"op": "rootless", "lam": w.randrange(64)})
        elif k == "mt":
            # several user threads, each issuing synchronous value() calls (stage 2)
            ths = []
            for _ in range(w.randint(2, 3)):
                ths.append([{"stream": w.randrange(64), "plan": _gen_plan(f, faults, True),
                             "override": ("override" in faults and w.random() < 0.15)}
                            for _ in range(w.randint(1, 3))])
            ops.append({"op": "mt_block", "threads": ths})
    ops = ops[:(400 if big else 48)]
    if "derive_fail" in faults and any(d["typed"] >= 0 for d in datasets):
        ops = _add_nested_failures(st.get("faults3"), ops)
    if "threads" in faults:
        ops = _add_lib_threads(st.get("faults6"), ops, prop, config)
    if "reentrancy" in faults:
        ops = _add_reentrancy(st.get("faults5"), ops, config, prop)
    if "lifetime" in faults:
        ops = _add_lifetime(st.get("faults4"), ops, config["sites"], prop)
    if "crash_point" in faults:
        ops = _add_crash_points(x, ops)
    if any(o.get("chain_burst") for o in ops):
        # the checker's own ast.dump of a 260-step chain needs more than python's default limit
        config["env"]["reclimit"] = None
        config["live_cap"] = 12
    return {
        "property": prop,
        "engine": "forest",
        "engine_version": ENGINE_VERSION,
        "seed": seed,
        "sched_seed": mix(seed, "sched"),
        "config": config,
        "ops": ops,
    }


def _add_nested_failures(x, ops):
    "Some failing derives fail inside a nested stream-method call of the type follower."
    return [{**op, "kind": x.choice(NESTED_FAIL_KINDS)}
            if op["op"] == "derive_fail" and x.random() < 0.4 else op for op in ops]


REENT_SITES = [
    ("Select", "lambda e: e.a + REENT.val", []),
    ("Select", "lambda e: e.jets.Select(lambda j: j.pt + REENT.val)", []),
    ("Select", "lambda e: e.a * G0 + REENT.val", ["G0"]),
    ("Where", "lambda e: e.a > REENT.val - K0.A", ["K0.A"]),
    ("Select", "lambda G0: G0.b + REENT.val", []),
]


NESTED_TYPED = [t for t in TYPED if ".Select(" in t[1] or ".Where(" in t[1]]
NESTED_UNTYPED = [t for t in UNTYPED if ".Select(" in t[1] or ".Where(" in t[1]]


def _focused_threads(x, config, prop):
    """A thread block built to make a narrow window reachable: the threads run the same KIND of
    step (derives whose lambdas hold nested stream calls, on a dataset root where the type
    follower has work to do; for C04 a call site that must be refused next to another site), one
    of them is parked at a line drawn uniformly over its own length while the others run to the
    end."""
    ds = config["datasets"]
    typed = [i for i, d in enumerate(ds) if d["typed"] >= 0]
    out = []
    if prop == "C04":
        sites = config["sites"]
        ks = [k for k, st in enumerate(sites) if st["free"] and not st.get("boom")
              and st.get("reent") is None and not st.get("arg_unused")]
        if not ks:
            return out
        k = x.choice(ks)
        name = x.choice(sites[k]["free"])
        bad = x.choice([["list", [1, 2]], ["dict", [["a", 1]]], ["obj"], ["tuple", [3, 4]]])
        out.append({"op": "rebind", "name": name, "value": bad})
        ths = [{"kind": "site", "stream": x.randrange(64), "lam": k},
               {"kind": "site", "stream": x.randrange(64), "lam": x.randrange(64)}]
        x.shuffle(ths)
        out.append({"op": "mt_lib", "p": 0.03, "stop": True, "frac": x.random(), "threads": ths,
                    "focused": True})
        out.append({"op": "rebind", "name": name, "value": _gen_value(x, name, False)})
        return out
    root = {"root": x.choice(typed)} if typed and x.random() < 0.8 else {"root": x.randrange(len(ds))}
    cat = NESTED_TYPED if (typed and root["root"] in typed) else NESTED_UNTYPED
    ths = [{"kind": "derive", "stream": root, "lam": 0, "src": list(x.choice(cat))}
           for _ in range(x.randint(2, 3))]
    out.append({"op": "mt_lib", "p": 0.03, "stop": True, "frac": x.random(), "threads": ths,
                "focused": True})
    return out


def _add_lib_threads(x, ops, prop, config=None):
    "Blocks of user threads that use the library concurrently, pre-empted between its lines."
    kinds = {"C11": ["derive", "derive", "site", "clean", "hash"],
             "C12": ["clean", "clean", "derive", "hash"],
             "C16": ["lookup", "lookup", "derive", "hash"],
             "C04": ["site", "site", "site", "derive"]}[prop]
    out = []
    for op in ops:
        if op["op"] == "mt_block" and x.random() < 0.6:
            # the blocking value() calls of several user threads, pre-empted between the
            # library's lines as well (not only at the steps of their event loops)
            op = {**op, "p": x.choice([0.02, 0.1, 0.3])}
        out.append(op)
        if config is not None and op["op"] in ("derive", "rebind", "md", "qmd") and x.random() < 0.2:
            out.extend(_focused_threads(x, config, prop))
        if op["op"] in ("derive", "qmd", "md", "exec_sync") and x.random() < 0.12:
            ths = [{"kind": x.choice(kinds), "stream": x.randrange(64), "lam": x.randrange(64)}
                   for _ in range(x.randint(2, 3))]
            if x.random() < 0.4:
                # a pool of workers running the SAME step on several streams: the threads are
                # in the same function at the same time
                ths = [{**t, "kind": ths[0]["kind"], "lam": ths[0]["lam"]} for t in ths]
            out.append({"op": "mt_lib", "p": x.choice([0.01, 0.03, 0.1, 0.3]), "stop": x.random() < 0.5,
                        "frac": x.random(), "threads": ths, "opcodes": x.random() < 0.3})
    return out


def _add_reentrancy(x, ops, config, prop):
    """Fault family "re-entrancy" (post-pass, own PRNG stream): user code that the library calls
    uses the library while the outer operation is still in progress - an executor that looks at
    every live stream, derives, or executes another stream before it answers; type callbacks
    that look metadata up, hash and derive; a captured object whose property makes another
    call site run in the middle of the capture step."""
    for d in config["datasets"]:
        if d["typed"] in (1, 3) and x.random() < 0.5:
            d["typed"] = 4
    if prop == "C04" or x.random() < 0.3:
        for i, s in enumerate(config["sites"]):
            if not s.get("boom") and x.random() < 0.2:
                op_, lam, free = x.choice(REENT_SITES)
                config["sites"][i] = {"op": op_, "lam": lam, "free": list(free), "shadow": None,
                                      "reent": x.randrange(64)}
    out = []
    for op in ops:
        if op["op"] in ("exec_sync", "spawn") and x.random() < 0.3:
            acts = []
            for _ in range(x.randint(1, 3)):
                a = x.choice(["observe", "observe", "derive", "exec", "exec_sync"])
                acts.append([a, x.randrange(64), x.randrange(64)])
            op = {**op, "reenter": acts}
        out.append(op)
    return out


def _burst(x, sites, prop):
    """Volume: one create-(use)-drop loop of hundreds of iterations, each with a lambda (or a
    captured value) of its own - whatever the library keeps per query, per text or per value
    fills up, wraps around or gets evicted; the history goes on afterwards."""
    n = x.choice([64, 150, 200, 300])
    every = x.choice([1, 7, 50, 10 ** 6])
    parent = x.randrange(64)
    if prop in ("C11", "C12") and x.random() < 0.35:
        # one very long derivation path (a generated analysis: hundreds of steps on one branch),
        # executed at the end by a back end that translates what it receives in place
        out = [{"op": "derive", "parent": parent, "lam": x.randrange(64), "mode": "str",
                "chain_burst": True}]
        for i in range(x.choice([150, 210, 260])):
            out.append({"op": "derive", "parent": -1, "lam": x.randrange(64), "mode": "str",
                        "src": x.choice([["Select", f"lambda e: e.x + {i}"], ["Where", f"lambda e: e.x > {i}"]])
                        if x.random() < 0.7 else None})
            if x.random() < 0.02:
                out.append({"op": "md", "parent": -1, "md": {}})
        out.append({"op": "exec_sync", "stream": -1, "titled": True, "override": False,
                    "plan": ["ok", 0.0, "token"], "backend": "passes"})
        return out
    if prop == "C16" or x.random() < 0.25:
        # one derivation path with hundreds of QMetaData calls (a loop that records every cut):
        # a few keys set early, some of them twice, then a long tail of other settings
        out = [{"op": "qmd", "parent": parent, "md": {"title": "draft", "k0": 1}},
               {"op": "qmd", "parent": -1, "md": {"title": "final"}}]
        for i in range(n):
            if x.random() < 0.15:
                out.append({"op": "derive", "parent": -1, "lam": x.randrange(64), "mode": "str"})
            out.append({"op": "qmd", "parent": -1, "md": {x.choice(["k1", "k2", "K0"]): f"cut{i}"},
                        "burst": True})
        return out
    site_ks = [k for k, s in enumerate(sites) if s["free"] and not s.get("boom") and not s.get("reent")]
    use_site = prop == "C04" or (site_ks and x.random() < 0.3)
    out = []
    for i in range(n):
        if use_site and site_ks:
            k = x.choice(site_ks[:2])
            name = x.choice(sites[k]["free"])
            if name == "G2":
                out.append({"op": "rebind", "name": name, "value": ["str", f"t{i}"]})
            else:
                out.append({"op": "rebind", "name": name, "value": ["int", 1000 + i]})
            out.append({"op": "derive", "parent": parent, "lam": k, "mode": "site"})
        else:
            src = x.choice([["Select", f"lambda e: e.x + {i}"], ["Where", f"lambda e: e.x > {i}"],
                            ["Select", f"lambda e: e.jets.Select(lambda j: j.pt * {i})"]])
            out.append({"op": "derive", "parent": parent, "lam": 0, "mode": "str", "src": src})
        if i % every == every - 1:
            out.append({"op": "exec_sync", "stream": -1, "titled": True, "override": False,
                        "plan": ["ok", 0.0, "token"]})
        out.append({"op": "drop", "stream": -1, "gc": False, "burst": True})
    return out


def _add_lifetime(x, ops, sites, prop):
    """Fault family "object lifetime" (post-pass, own PRNG stream): streams are dropped (their
    nodes die and the addresses are re-used), collections are forced, the same operation is
    repeated in a create-use-drop loop (`for cut in cuts: ds.Where(lambda e: e.pt > cut).value()`),
    call sites live in notebook cells (short-lived code objects) or in helper functions (fresh
    closure cells per call)."""
    for s in sites:
        if s.get("boom") or s.get("supply"):
            continue
        if s.get("scope") == "module":
            s["cell"] = x.random() < 0.6
        elif "scope" not in s and x.random() < 0.35:
            s["scope"] = "param"
    out = []
    burst_at = x.randrange(len(ops) + 1) if x.random() < 0.04 else None
    for pos, op in enumerate(ops):
        if pos == burst_at:
            b = [{**o, "burst": True} for o in _burst(x, sites, prop)]
            b[-1]["burst_end"] = True  # the invariants are evaluated when the loop is over
            out.extend(b)
        out.append(op)
        k = op["op"]
        if k == "derive" and "stack" not in op and x.random() < 0.25:
            # the loop idiom: the stream just made is used (maybe), dropped, and the same call
            # is made again - often with a rebinding in between
            for _ in range(x.randint(1, 4)):
                if x.random() < 0.3:
                    out.append({"op": "exec_sync", "stream": -1, "titled": True, "override": False,
                                "plan": ["ok", 0.0, "token"]})
                out.append({"op": "drop", "stream": -1, "gc": x.random() < 0.3})
                if x.random() < 0.5 and (prop == "C04" or op["mode"] == "site"):
                    name = x.choice(cl.ALL_NAMES)
                    out.append({"op": "rebind", "name": name, "value": _gen_value(x, name, False)})
                again = dict(op)
                if x.random() < 0.4:
                    again["lam"] = x.randrange(64)
                out.append(again)
        elif k in ("spawn", "exec_sync") and x.random() < 0.3:
            # use, (maybe fail,) let go, build anew, use: what was left behind for the dead
            # stream must not be found by a new one that happens to live at its address
            out.append({"op": "sleep", "dt": x.choice([0.0, 1.0, 4000.0, 4000.0])})
            out.append({"op": "drop", "stream": op["stream"], "live_index": True,
                        "gc": x.random() < 0.5, "all": x.random() < 0.5})
            for _ in range(x.randint(1, 4)):
                out.append({"op": "derive", "parent": x.randrange(64), "lam": x.randrange(64),
                            "mode": "str"})
                out.append({"op": "exec_sync", "stream": -1, "titled": True, "override": False,
                            "plan": ["ok", 0.0, "token"]})
        elif k in ("derive", "md", "qmd", "term", "exec_sync", "sleep") and x.random() < 0.12:
            out.append({"op": "drop", "stream": x.randrange(64), "gc": x.random() < 0.5,
                        "all": x.random() < 0.2})
    return out


def _add_crash_points(x, ops):
    """Fault "crash at an arbitrary point" (post-pass, own PRNG stream): an asynchronous
    exception - KeyboardInterrupt, MemoryError, or a BaseException that no `except Exception`
    sees - lands at the k-th line the library executes inside a builder operation or a
    value()/value_async() call.  A crashed builder op is often retried at once (what a user
    does after Ctrl-C): the retry is an ordinary operation and judged like one."""
    out = []
    for op in ops:
        k = op["op"]
        if k == "qmd" and op["md"] and x.random() < 0.25:
            # a look-up of a key just set, hit by the exception part-way; often asked again
            out.append(op)
            key = x.choice(sorted(op["md"]))
            out.append({"op": "lookup_deep", "stream": -1, "key": key,
                        "crash": [int(2 ** x.uniform(0, 6)), x.choice(["keyboard", "memory", "abort"])]})
            if x.random() < 0.5:
                out.append({"op": "lookup_deep", "stream": -1, "key": key})
            continue
        if k in ("derive", "md", "qmd", "term", "open_ds") and "stack" not in op and x.random() < 0.14:
            op = {**op, "crash": [int(2 ** x.uniform(0, 9.5)), x.choice(["keyboard", "memory", "abort"])]}
            out.append(op)
            if x.random() < 0.5:
                out.append({kk: v for kk, v in op.items() if kk != "crash"})
            continue
        if k == "lookup_deep" and x.random() < 0.4:
            op = {**op, "crash": [int(2 ** x.uniform(0, 6)), x.choice(["keyboard", "memory", "abort"])]}
        if k in ("exec_sync", "spawn") and "stack" not in op and not op.get("interrupt") \
                and x.random() < 0.2:
            op = {**op, "crash": [int(2 ** x.uniform(0, 7.5)), x.choice(["keyboard", "memory", "abort"])]}
        out.append(op)
    return out


# ---------------------------------------------------------------------------------------------
# helpers used by models and oracles
# ---------------------------------------------------------------------------------------------
def strip_empty_md(n):
    """The checker's own *functional* remover of empty MetaData wrappers: returns a fresh
    tree (fields only), never touches its argument."""
    if isinstance(n, list):
        return [strip_empty_md(x) for x in n]
    if not isinstance(n, ast.AST):
        return n
    if (
        isinstance(n, ast.Call)
        and isinstance(n.func, ast.Name)
        and n.func.id == "MetaData"
        and len(n.args) == 2
        and isinstance(n.args[1], ast.Dict)
        and not n.args[1].keys
    ):
        return strip_empty_md(n.args[0])
    return type(n)(**{f: strip_empty_md(getattr(n, f)) for f in n._fields if hasattr(n, f)})


def _flat(v):
    if isinstance(v, list):
        out = []
        for x in v:
            out.extend(_flat(x))
        return out
    return [v]


def _flat_outcome(o):
    "An outcome with a nested-list value flattened (multi-generator comprehensions)."
    if o and o[0] == "ok" and isinstance(o[1], list):
        return ("ok", _flat(o[1]))
    return o


def free_names(node, bound=frozenset()):
    "Names read in an expression that no enclosing lambda or comprehension of it binds."
    if isinstance(node, ast.Lambda):
        a = node.args
        inner = bound | {x.arg for x in a.posonlyargs + a.args + a.kwonlyargs} | {
            x.arg for x in (a.vararg, a.kwarg) if x is not None}
        out = free_names(node.body, inner)
        for d in list(a.defaults) + [x for x in a.kw_defaults if x is not None]:
            out |= free_names(d, bound)  # defaults are evaluated in the enclosing scope
        return out
    if isinstance(node, (ast.ListComp, ast.SetComp, ast.GeneratorExp, ast.DictComp)):
        out = set()
        inner = bound
        for i, g in enumerate(node.generators):
            out |= free_names(g.iter, bound if i == 0 else inner)
            inner = inner | {n.id for n in ast.walk(g.target) if isinstance(n, ast.Name)}
            for c in g.ifs:
                out |= free_names(c, inner)
        for part in ([node.key, node.value] if isinstance(node, ast.DictComp) else [node.elt]):
            out |= free_names(part, inner)
        return out
    if isinstance(node, ast.Name):
        return set() if node.id in bound else {node.id}
    out = set()
    for ch in ast.iter_child_nodes(node):
        out |= free_names(ch, bound)
    return out


def describe_type(t):
    "What can be observed of an item type: its repr, and for a (generated) dataclass its fields."
    d = repr(t)
    if dataclasses.is_dataclass(t):
        d += "{" + ",".join(f"{f.name}:{f.type!r}" for f in dataclasses.fields(t)) + "}"
    for a in getattr(t, "__args__", ()) or ():
        if dataclasses.is_dataclass(a):
            d += "[" + describe_type(a) + "]"
    return d


def chain_lambdas(a):
    "Lambdas of the Select/Where/SelectMany stages along the args[0] spine, top to root."
    out = []
    n = a
    while isinstance(n, ast.Call) and isinstance(n.func, ast.Name) and n.args:
        if n.func.id in ("Select", "Where", "SelectMany") and len(n.args) == 2:
            out.append(n.args[1])
        n = n.args[0]
    return out


def sdig(s: str) -> str:
    return hashlib.sha1(s.encode()).hexdigest()[:12]


CURRENT_CALL = contextvars.ContextVar("verif_current_call", default=None)
CURRENT_CRASH = contextvars.ContextVar("verif_current_crash", default=None)


class _FormattingSink(__import__("logging").Handler):
    "Formats every record it is given (as a stream or file handler would) and drops the text."

    def emit(self, record):
        self.format(record)


class Token:
    "Unique result object of one executor call."

    __slots__ = ("title",)

    def __init__(self, title):
        self.title = title

    def __repr__(self):
        return f"Token({self.title})"


class CustomError(Exception):
    pass


def _error_types():
    "Every builtin Exception subclass that can be built from one string (plus a custom one)."
    import builtins

    out = {"Custom": CustomError}
    for name in sorted(dir(builtins)):
        t = getattr(builtins, name)
        if isinstance(t, type) and issubclass(t, Exception) and not issubclass(t, Warning):
            if t in (StopIteration, StopAsyncIteration) or issubclass(t, (SystemError,)):
                continue
            try:
                t("x")
            except Exception:
                continue
            out[name] = t
    return out


class AbortAll(BaseException):
    "Not an Exception: code that cleans up in `except Exception` never sees it."


ERRS = _error_types()
# BaseException kinds: an executor that raises CancelledError itself, GeneratorExit, a custom
# BaseException; and - only for calls made through the synchronous value(), whose private loop
# they tear down - KeyboardInterrupt and SystemExit
ERRS.update({"AbortAll": AbortAll, "GeneratorExit": GeneratorExit,
             "SelfCancel": asyncio.CancelledError})
ERR_NAMES = sorted(ERRS)
SYNC_ONLY_ERRS = {"KeyboardInterrupt": KeyboardInterrupt, "SystemExit": SystemExit}
ERRS.update(SYNC_ONLY_ERRS)
SYNC_ERR_NAMES = sorted(ERRS)
BASE_ERRS = {"AbortAll", "GeneratorExit", "SelfCancel", "KeyboardInterrupt", "SystemExit"}


class Violation(Exception):
    def __init__(self, cls, detail):
        super().__init__(cls)
        self.cls = cls
        self.detail = detail


class SModel:
    "Model-side record of one live stream."

    __slots__ = ("stream", "root", "snap", "itype", "md", "twin", "lams", "made_by", "idx",
                 "op_id")


# ---------------------------------------------------------------------------------------------
# execution
# ---------------------------------------------------------------------------------------------
class Forest:
    def __init__(self, case):
        from func_adl import EventDataset  # the tree under test

        self.case = case
        self.prop = case["property"]
        self.cfg = case["config"]
        self.oracles = set(case.get("oracles") or [self.prop])
        self.world = vloop.World(Streams(case["sched_seed"]).get("schedule"),
                                 step_cap=self.cfg.get("step_cap", 20000))
        self.world.env = self.cfg.get("env") or {}
        self.obs_rng = Streams(case["sched_seed"]).get("observe")
        self.events = []  # compact history; its digest is the determinism fingerprint
        self.stats = {}
        self.live = []
        self.calls = []  # every value()/value_async() call issued
        self.by_title = {}
        self.exec_starts = 0
        self.sync_call = None
        self.last_op = "init"
        self.tmpdir = None
        self.sync_block = 0.0
        self.by_id = {}
        self.pending = None  # a violation noticed inside re-entrant user code
        self.issued = []
        self.n_issued = 0
        self.cur_id = -1
        self.cur_resolved = {}
        self.resolved = []
        self.call_by_id = {}
        eng = self

        class FakeDataset(EventDataset):
            def __init__(self, idx, item_type, extra=None):
                if item_type is None:
                    super().__init__()
                else:
                    super().__init__(item_type)
                self.idx = idx
                if extra is not None:
                    # a back end that keeps the file name as an argument of its root node
                    self.query_ast.args.append(ast.Constant(extra))  # type: ignore

            async def execute_result_async(self, a, title=None):
                return await eng.peer_exec(self.idx, self, a, title)

        class WrappedDataset(FakeDataset):
            "The executor went through a decorator written without functools.wraps."

            async def execute_result_async(self, *args, **kwargs):
                a = args[0]
                title = args[1] if len(args) > 1 else kwargs.get("title", "<no title given>")
                return await eng.peer_exec(self.idx, self, a, title)

        class Branch:
            "What a proxy dataset hands out for an attribute it does not have: a truthy object."

            def __init__(self, name):
                self.name = name

            def __repr__(self):
                return f"Branch({self.name})"

        class ProxyDataset(FakeDataset):
            """A dataset class that exposes the branches of its files as attributes
            (`ds.jets`, `ds.met` ...): ANY name that is not a real attribute gives a Branch -
            also names a later version of the library may look for on a stream with
            getattr(stream, name, None).  Dunder names are refused, as careful proxies do."""

            def __getattr__(self, name):
                if name.startswith("__") and name.endswith("__"):
                    raise AttributeError(name)
                return Branch(name)

        class LabelledDataset(FakeDataset):
            "A dataset class with bookkeeping attributes of its own, under everyday names."

            title = "sample (class level)"
            _title = "plot label"
            name = "dataset-name"
            _name = "internal-name"
            executor = None
            _executor = "grid-site-7"
            metadata = {"campaign": "mc23"}
            _metadata = {"x": 1}
            cache = {}
            _cache = {"k": "v"}
            _hash = 12345
            _id = 7
            id = 8
            key = "K"
            _key = "_K"

        self.FakeDataset = FakeDataset
        self.WrappedDataset = WrappedDataset
        self.ProxyDataset = ProxyDataset
        self.LabelledDataset = LabelledDataset

    # -- bookkeeping -------------------------------------------------------------------------
    def stat(self, k, n=1):
        self.stats[k] = self.stats.get(k, 0) + n

    def ev(self, *a):
        self.events.append("|".join(str(x) for x in a))

    # -- the peers ---------------------------------------------------------------------------
    def peer_exec_sync(self, peer, self_obj, a, title):
        "An executor that is an ordinary function: answers (or raises) at once."
        coro = self.peer_exec(peer, self_obj, a, title, nosleep=True)
        try:
            coro.send(None)
        except StopIteration as stop:
            return stop.value
        coro.close()
        raise RuntimeError("synchronous executor wanted to wait")

    async def peer_exec(self, peer, self_obj, a, title, nosleep=False):
        from func_adl import find_EventDataset

        if getattr(self, "stack_window", None) is not None:
            self.stack_window.restore()  # harness code runs with the normal stack
        cp = CURRENT_CRASH.get()
        if cp is not None:
            cp.paused += 1  # the back end's own use of the library is not the crashed operation
        try:
            return await self._peer_exec(peer, self_obj, a, title, nosleep)
        finally:
            if cp is not None:
                cp.paused -= 1

    async def _peer_exec(self, peer, self_obj, a, title, nosleep=False):
        from func_adl import find_EventDataset

        self.exec_starts += 1
        # attribution: the call whose coroutine / thread (transitively) started this executor;
        # titles may repeat between calls, so they are only a fallback
        call = CURRENT_CALL.get()
        if call is None:
            call = self.by_title.get(title) if title is not None else self.sync_call
        d = ast.dump(a)
        try:
            root_obj = getattr(find_EventDataset(a), "_eds_object", None)
        except Exception:
            root_obj = "raised"
        rec = {"peer": peer, "self_ok": (self_obj is None or self_obj is self.datasets[peer]),
               "dump": d, "hash": None, "root_obj": root_obj, "title": title,
               "t": self.world.now, "ast": a}
        if "C16" in self.oracles:
            from func_adl.ast.ast_hash import calc_ast_hash

            rec["hash"] = calc_ast_hash(a)
        self.ev("exec_start", peer, title, sdig(d))
        if call is None:
            self.orphans.append(rec)
            return None
        call["starts"].append(rec)
        plan = call["plan"]
        if call.get("backend"):
            from func_adl.ast.meta_data import extract_metadata, remove_empty_metadata

            self.stat("fault_executor_runs_library_helpers")
            try:
                extract_metadata(remove_empty_metadata(a))
            except Exception:  # a block that cannot be evaluated: the back end's problem
                self.stat("backend_helper_raised")
            if call["backend"] == "passes":
                rec["ast"] = le.plain_copy(a)  # what was received, before this executor edits it
                # ... and, like the real back ends, the library's transformation passes (which
                # are ast.NodeTransformers: they rewrite the nodes they are given)
                from func_adl.ast import aggregate_node_transformer
                from func_adl.ast import change_extension_functions_to_calls as to_calls
                from func_adl.ast.function_simplifier import simplify_chained_calls

                # ... and a translation step of its own that edits what it was handed in place:
                # operator names into the back end's dialect, a hint keyword on every call
                for n in list(ast.walk(a)):
                    if isinstance(n, ast.Call) and isinstance(n.func, ast.Name):
                        n.func.id = n.func.id.lower()
                        n.keywords.append(ast.keyword(arg="hint", value=ast.Constant(1)))
                try:
                    b = aggregate_node_transformer().visit(to_calls(a))
                    # fusing a long chain can take time exponential in its length (each fusion
                    # duplicates the inner lambda per use of the parameter): short chains only
                    if len(chain_lambdas(b)) <= 6:
                        simplify_chained_calls().visit(b)
                except Exception:
                    self.stat("backend_helper_raised")
        if call.get("reenter") and self.world.mt is None:
            for act in call["reenter"]:
                await self.reenter(act, call, nosleep)
        if call.get("interrupt") and not call.get("interrupt_sent"):
            # fault: the thread that is blocked in value() right now is interrupted (what SIGINT
            # does to a waiting main thread); this executor stays busy until the simulator lets
            # it go on, and nobody waits for its answer any more
            gate = threading.Lock()
            gate.acquire()
            call["gate"] = gate
            if vloop.can_interrupt_waiting_caller():
                # everything is recorded BEFORE the caller is woken: from then on two threads
                # run, and this one does nothing but wait at the gate
                call["interrupt_sent"] = True
                self.ev("caller_interrupt", peer, title)
                vloop.interrupt_waiting_caller(); gate.acquire()  # noqa: E702
        try:
            if plan[0] == "stall" and not nosleep:
                await asyncio.get_running_loop().create_future()
            if not nosleep:
                await asyncio.sleep(plan[1])
            if plan[0] == "error":
                raise call["err"]
            v = {"token": Token(title), "none": None, "zero": 0, "emptylist": []}[plan[2]]
            call["ret"] = v
            call["has_ret"] = True
            return v
        except asyncio.CancelledError:
            call["peer_cancelled"] = True
            self.ev("exec_cancelled", peer, title)
            raise
        finally:
            call["end_t"] = self.world.now
            self.ev("exec_end", peer, title)
            self.end_order.append(call["no"])

    async def reenter(self, act, outer, nosleep):
        """Re-entrancy: the executor of `outer` uses the library before it answers.  What it
        sees and makes is judged like anything else; a violation is kept until the simulator's
        main line is reached (the library in between may swallow or re-wrap exceptions)."""
        kind, i, j = act
        self.stat(f"fault_reentrant_executor_{kind}")
        saved = self.last_op
        try:
            if kind == "observe":
                self.last_op = "execute"
                self.check_all()
            elif kind == "derive":
                m = self.live[i % len(self.live)]
                pk, src = self.cfg["pool"][j % len(self.cfg["pool"])]
                new, ex = self.builder(lambda: getattr(m.stream, pk)(src))
                if ex is None:
                    twin = None
                    if "C16" in self.oracles and m.twin is not None:
                        twin, _ = self.builder(lambda: getattr(m.twin, pk)(src))
                    m2 = self.add_stream(new, m.root, m, pk, twin=twin, lam_rec=None)
                    self.check_root(new, m2.root, "derive")
                    self.stat("streams_derived_inside_an_executor")
            elif kind in ("exec", "exec_sync") and not (nosleep and kind == "exec"):
                m = self.live[i % len(self.live)]
                c2 = self.new_call(m, ["ok", 0.0, "token"], False,
                                   "sync" if kind == "exec_sync" else "async", None)
                c2["nested_in"] = outer["no"]
                c2["may_cancel"] = True  # whatever ends the outer call early ends this one too
                if kind == "exec_sync":
                    # faults armed for the OUTER call's worker thread are not the nested call's
                    w = self.world
                    saved_w = (getattr(w, "small_stack", None), getattr(w, "crash", None))
                    w.small_stack = w.crash = None
                    try:
                        ctx = contextvars.copy_context()
                        ctx.run(self.run_sync, c2)
                    finally:
                        w.small_stack, w.crash = saved_w
                else:
                    loop = asyncio.get_running_loop()
                    t = loop.create_task(self.one(c2), name=f"call-{c2['no']}")
                    if loop is getattr(self, "main_loop", None):
                        # judged by the main line if the outer call does not get that far
                        c2["task"] = t
                        c2["op_id"] = -1 - c2["no"]
                        self.tasks.append(c2)
                    try:
                        await asyncio.shield(t)
                    except asyncio.CancelledError:
                        cur = asyncio.current_task()
                        if t.cancelled() and cur is not None and cur.cancelling() == 0:
                            # the simulator cancelled the NESTED call before its first step;
                            # nobody asked the outer call to stop
                            if c2["res"] is None:
                                c2["res"] = ("cancelled",)
                        else:
                            # the outer call is being cancelled (`one` records and swallows
                            # what hits the nested call: the request is passed on by hand)
                            t.cancel()
                            raise
                self.stat("calls_nested_in_an_executor")
                self.check_call(c2)
                c2["checked"] = True
        except Violation as v:
            if self.pending is None:
                self.pending = v
        finally:
            self.last_op = saved

    def make_override(self, k):
        async def ov(a, title=None):
            return await self.peer_exec(f"OV{k}", None, a, title)

        if k == 0:
            return ov
        eng = self
        if k == 2:  # a partial object: no __name__, no __code__
            import functools

            async def ov3(tag, a, title=None):
                return await eng.peer_exec(tag, None, a, title)

            return functools.partial(ov3, "OV2")
        if k == 5:  # an ordinary function (the interface allows synchronous executors)

            def ov6(a, title=None):
                return eng.peer_exec_sync("OV5", None, a, title)

            return ov6
        if k == 4:  # a (*args) signature, e.g. behind a retry decorator

            async def ov5(*args, **kwargs):
                title = args[1] if len(args) > 1 else kwargs.get("title", "<no title given>")
                return await eng.peer_exec("OV4", None, args[0], title)

            return ov5
        if k == 3:  # a bound method of some service object

            class Service:
                async def run(self, a, title=None):
                    return await eng.peer_exec("OV3", None, a, title)

            return Service().run

        class RecordingExecutor:
            "A callable object that is falsy (it is a container of the requests served so far)."

            def __init__(self):
                self.served = []

            def __len__(self):
                return 0

            async def __call__(self, a, title=None):
                return await eng.peer_exec(f"OV{k}", None, a, title)

        return RecordingExecutor()

    # -- setup -------------------------------------------------------------------------------
    def setup(self):
        from . import zoo
        import logging

        lvl = self.cfg.get("log_level", "off")
        if lvl != "off":
            logging.disable(logging.NOTSET)
            lg = logging.getLogger("func_adl")
            lg.handlers[:] = [_FormattingSink()]  # a handler that really formats every record
            lg.propagate = False
            lg.setLevel(getattr(logging, lvl))
            self.stat(f"runs_with_logging_{lvl}")
        zoo.setup()
        self.zoo = zoo
        self.apply_env()
        self.simid = None
        if "lifetime" in self.cfg.get("faults", []):
            from .simid import SimId

            self.simid = SimId(Streams(self.case["sched_seed"]).get("simid"))
            self.simid.install()
        self.datasets = {}
        self.orphans = []
        self.end_order = []
        for i, d in enumerate(self.cfg["datasets"]):
            t = zoo.EVT[d["typed"]] if d["typed"] >= 0 else None
            cls = self.WrappedDataset if d.get("wrapped") else self.FakeDataset
            if d.get("flavour") == "proxy":
                cls = self.ProxyDataset
                self.stat("datasets_with_catch_all_getattr")
            elif d.get("flavour") == "labelled":
                cls = self.LabelledDataset
                self.stat("datasets_with_everyday_attribute_names")
            ds = cls(i, t, d.get("extra"))
            self.datasets[i] = ds
            self.add_stream(ds, i, None, "root", twin=ds)
        self.overrides = [self.make_override(i) for i in range(6)]
        # shared AST objects (the same ast.Lambda instance may be handed to many calls)
        self.shared = [self.parse_lambda(src) for _, src in self.cfg["pool"]]
        real_dir = None
        if self.cfg.get("real_disk"):
            base = os.environ.get("TMPDIR") or tempfile.gettempdir()
            self.tmpdir = tempfile.mkdtemp(prefix=f"verif-{os.getpid()}-", dir=base)
            real_dir = self.tmpdir
            self.stat("real_disk_runs")
        self.client = cl.ClientProgram(self.cfg["sites"], f"{self.case.get('seed', 0)}",
                                       real_dir=real_dir)

    def apply_env(self):
        import gc
        import warnings

        env = self.cfg.get("env") or {}
        self._env_undo = []
        if env.get("warnings_error"):
            # what `python -W error` / pytest's filterwarnings=error do: any warning raises.  The
            # harness's own tolerated warnings (see core.bootstrap) stay in front
            saved = warnings.filters[:]
            warnings.resetwarnings()
            warnings.simplefilter("error")
            warnings.filterwarnings("ignore", category=RuntimeWarning,
                                    message="coroutine .* was never awaited")
            warnings.filterwarnings("ignore", category=ResourceWarning)
            warnings.filterwarnings("ignore", category=SyntaxWarning)
            self._env_undo.append(lambda: warnings.filters.__setitem__(slice(None), saved))
            self.stat("env_warnings_are_errors")
        if env.get("asyncio_debug"):
            self.stat("env_asyncio_debug")
        if env.get("eager_tasks"):
            self.stat("env_eager_task_factory")
        g = env.get("gc", "default")
        if g != "default":
            thr, was = gc.get_threshold(), gc.isenabled()
            if g == "off":
                gc.disable()
            else:
                gc.enable()
                gc.set_threshold(20, 2, 2)
            self._env_undo.append(lambda: (gc.set_threshold(*thr), gc.enable() if was else gc.disable()))
            self.stat(f"env_gc_{g}")
        if env.get("reclimit"):
            old = sys.getrecursionlimit()
            sys.setrecursionlimit(env["reclimit"])
            self._env_undo.append(lambda: sys.setrecursionlimit(old))
            self.stat("env_default_recursion_limit")

    def teardown(self):
        for undo in reversed(getattr(self, "_env_undo", [])):
            undo()
        if getattr(self, "simid", None) is not None:
            self.simid.uninstall()
            if self.simid.asked:
                self.stat("simid_numbers_asked_by_library", self.simid.asked)
            if self.simid.reused:
                self.stat("fault_lifetime_id_reused", self.simid.reused)
        try:
            self.client.close()
        except Exception:
            pass
        if self.tmpdir:
            shutil.rmtree(self.tmpdir, ignore_errors=True)

    def parse_lambda(self, src):
        a = ast.parse(src).body[0].value
        dc = self.zoo.DC

        class R(ast.NodeTransformer):
            def visit_Name(self, n):
                return ast.Constant(value=dc) if n.id == "DC" else n

        return R().visit(a)

    # -- model -------------------------------------------------------------------------------
    def snap_of(self, stream):
        return ast.dump(stream.query_ast), describe_type(stream.item_type)

    def add_stream(self, stream, root, parent, made_by, twin=None, md=None, lam_rec=None):
        m = SModel()
        m.stream = stream
        m.root = root
        m.snap = self.snap_of(stream)
        m.itype = stream.item_type
        m.md = dict(md if md is not None else (parent.md if parent else {}))
        m.twin = twin
        m.made_by = made_by
        m.lams = ([lam_rec] if made_by in ("Select", "Where", "SelectMany") else []) + (
            parent.lams if parent else [])
        m.idx = len(self.live)
        m.op_id = self.cur_id
        if made_by != "root":
            self.by_id[m.op_id] = m
        self.live.append(m)
        self.ev("new", m.idx, made_by, sdig(m.snap[0]))
        if len(self.live) > self.cfg.get("live_cap", 24):  # bound the state: forget the oldest
            for i, x in enumerate(self.live):
                if x.made_by not in ("root", "dataset"):
                    del self.live[i]
                    self.by_id.pop(x.op_id, None)
                    break
        return m

    def ref(self, op, field):
        """Resolve a stream reference.  An int is taken modulo the live count (-1 = newest);
        {"ref": id} names the stream created by the op with that id (falls back to modulo if
        that op is gone), {"root": k} a dataset root.  The resolution is recorded so that a
        case can be rewritten with stable references before shrinking."""
        r = op[field]
        if isinstance(r, dict):
            if "root" in r:
                m = self.live[r["root"] % len(self.cfg["datasets"])]
            else:
                m = self.by_id.get(r["ref"]) or self.live[r["ref"] % len(self.live)]
        elif r == -1:
            m = self.live[-1]
        else:
            m = self.live[r % len(self.live)]
        self.cur_resolved[field] = {"root": m.idx} if m.made_by == "root" else {"ref": m.op_id}
        return m

    # -- oracles that run after every op --------------------------------------------------------
    def check_all(self):
        if "C11" in self.oracles:
            # streams handed out by callbacks that keep them are previously created streams too
            while self.n_issued < len(self.zoo.ISSUED):
                st = self.zoo.ISSUED[self.n_issued]
                self.issued.append((st, self.snap_of(st), st.item_type))
                self.n_issued += 1
                self.stat("probe_callback_issued_stream_tracked")
            for st, snap, it in self.issued:
                now = self.snap_of(st)
                if now != snap or st.item_type is not it:
                    raise Violation(
                        f"C11/snapshot/after-{self.last_op}",
                        {"stream": "issued-by-callback", "made_by": "callback", "changed": "ast",
                         "was": snap[0][:400], "now": now[0][:400]})
            for m in self.live:
                s = self.snap_of(m.stream)
                if s != m.snap or m.stream.item_type is not m.itype:
                    what = "ast" if s[0] != m.snap[0] else "item_type"
                    raise Violation(
                        f"C11/snapshot/after-{self.last_op}",
                        {"stream": m.idx, "made_by": m.made_by, "changed": what,
                         "was": m.snap[0][:400], "now": s[0][:400]})
        if "C16" in self.oracles:
            from func_adl.ast.meta_data import lookup_query_metadata

            # looking a key up is itself an operation of the history (it may fill caches or
            # indices inside the library): runs differ in how often the checker looks
            obs = self.cfg.get("observe", "all")
            final = getattr(self, "final_check", False)
            for m in self.live:
                if not final and (obs == "final" or (obs == "sparse" and self.obs_rng.random() < 0.7)):
                    continue
                for k in KEYS:
                    try:
                        got = lookup_query_metadata(m.stream, k)
                    except RecursionError:
                        raise
                    except Exception as ex:
                        # a look-up has no reason to fail, whatever the values are
                        raise Violation("C16/lookup/raised", {"stream": m.idx, "key": k,
                                                              "exc": repr(ex)[:200],
                                                              "after": self.last_op})
                    exp = m.md.get(k)
                    if not same_qvalue(got, exp):  # Python equality: 1 then 1.0 is 'the same value set again'
                        if exp is not None and got is None:
                            sub = "lost-earlier-key"
                        elif exp is None:
                            sub = "phantom"
                        else:
                            sub = "stale-or-leaked-value"
                        raise Violation(
                            f"C16/lookup/{sub}",
                            {"stream": m.idx, "key": k, "got": repr(got), "expected": repr(exp),
                             "after": self.last_op})
        if "C04" in self.oracles:
            for m in self.live:
                if m.lams and m.lams[0] is not None and m.made_by in ("Select", "Where", "SelectMany"):
                    rec = m.lams[0]
                    try:
                        lam = m.stream.query_ast.args[1]
                    except Exception:
                        lam = None
                    self.check_lambda_still(rec, lam, f"later-step-{self.last_op}", m.idx)

    # -- C04 helpers ---------------------------------------------------------------------------
    def eval_lambda(self, lam):
        try:
            le.reset_budget()
            f = le.compile_expr(lam)
        except BaseException as ex:  # malformed lambda: every sample "raises"
            return [("exc", "compile:" + type(ex).__name__)] * len(SAMPLES)
        return [le.outcome(f, s) for s in SAMPLES]

    def same_where_ref_ok(self, refs, got, flatten=False):
        if flatten:
            refs, got = [_flat_outcome(r) for r in refs], [_flat_outcome(g) for g in got]
        return all(g == r for g, r in zip(got, refs) if r[0] == "ok")

    def check_lambda_still(self, rec, lam, where, idx):
        d = ast.dump(lam) if lam is not None else "<missing>"
        if d == rec["dump"]:
            return
        got = self.eval_lambda(lam) if lam is not None else []
        if lam is None or not self.same_where_ref_ok(rec["refs"], got, rec.get("flatten")):
            raise Violation("C04/drift", {"stream": idx, "where": where, "site": rec["site"],
                                          "lambda_then": rec["text"],
                                          "lambda_now": _safe_unparse(lam)})
        self.stat("c04_dump_changed_value_same")

    # -- ops ------------------------------------------------------------------------------------
    def builder(self, fn):
        "Run a builder op; no executor may start inside it (C12 oracle 1)."
        n0 = self.exec_starts
        extra, self.derive_stack = getattr(self, "derive_stack", None), None
        crash, self.derive_crash = getattr(self, "derive_crash", None), None
        self.last_crashed = False
        try:
            if crash:
                # fault: an asynchronous exception surfaces at the k-th line the library
                # executes in this operation (only the first builder call of the op, not its twin)
                cp = crash_at(crash[0], crash_exception(crash[1], "in a builder"))
                self.stat("fault_crash_point_armed")
                try:
                    with cp:
                        r = fn()
                except BaseException as ex:
                    if ex is not cp.exc:
                        if cp.fired:  # the library turned it into something else
                            self.stat("crash_point_rewrapped")
                            self.last_crashed = True
                            self.ev("crash_point", "builder", "rewrapped", type(ex).__name__)
                            return None, ex
                        raise
                    self.stat("fault_crash_point_fired")
                    self.stat(f"fault_crash_point_{crash[1]}")
                    self.last_crashed = True
                    self.ev("crash_point", "builder", crash[0])
                    return None, ex
                if cp.fired:
                    # swallowed on the way: what the call returned is not judged and not kept
                    self.stat("crash_point_swallowed")
                    self.last_crashed = True
                    self.ev("crash_point", "builder", "swallowed")
                    return None, RuntimeError("injected crash swallowed")
                self.ev("crash_point", "builder", "not-reached")
                return r, None
            if extra:  # only the first builder call of the op (not its twin) runs in the window
                self.stat("fault_small_stack_derive")
                with small_stack(extra):
                    return fn(), None
            return fn(), None
        except RecursionError as ex:
            if extra:
                self.stat("derive_overflows")
            return None, ex
        except Exception as ex:  # a failed derive is an operation of the history
            return None, ex
        finally:
            if self.exec_starts != n0 and "C12" in self.oracles:
                raise Violation("C12/build-exec", {"op": self.last_op})

    def check_root(self, stream, root, what):
        if "C12" not in self.oracles:
            return
        from func_adl import find_EventDataset

        try:
            node = find_EventDataset(stream.query_ast)
            ok = getattr(node, "_eds_object", None) is self.datasets[root]
        except Exception as ex:
            raise Violation("C12/root", {"what": what, "raised": repr(ex)[:200]})
        if not ok:
            raise Violation("C12/root", {"what": what, "wrong_root": True})

    def op_derive(self, op):
        self.derive_stack = op.get("stack")
        self.derive_crash = op.get("crash")
        try:
            return self._op_derive(op)
        finally:
            self.derive_stack = None
            self.derive_crash = None

    def _op_derive(self, op):
        parent = self.ref(op, "parent")
        mode = op["mode"]
        if mode == "site":
            return self.derive_site(parent, op["lam"] % len(self.cfg["sites"]))
        k = op["lam"] % len(self.cfg["pool"])
        kind, src = self.cfg["pool"][k]
        if op.get("src"):  # an explicit text (volume bursts: hundreds of distinct lambdas)
            kind, src = op["src"]
            mode = "str"

        def arg():
            if mode == "str":
                return src
            if mode == "ast":
                return self.parse_lambda(src)
            return self.shared[k]

        self.last_op = f"derive-{mode}"
        new, ex = self.builder(lambda: getattr(parent.stream, kind)(arg()))
        if ex is not None:
            self.stat("derive_raised")
            self.ev("derive_raised", type(ex).__name__)
            return
        twin = None
        if "C16" in self.oracles and parent.twin is not None:
            twin, tex = self.builder(lambda: getattr(parent.twin, kind)(arg()))
            if tex is not None:
                self.stat("twin_derive_raised")
        self.stat("derive_ok")
        self.stat(f"derive_{mode}")
        if mode == "shared":
            self.shared_uses[k] = self.shared_uses.get(k, set()) | {parent.root}
            if len(self.shared_uses[k]) > 1:
                self.stat("probe_shared_ast_on_second_dataset")
        m = self.add_stream(new, parent.root, parent, kind, twin=twin, lam_rec=None)
        self.check_root(new, m.root, "derive")

    def derive_site(self, parent, k):
        site = self.cfg["sites"][k]
        if site.get("cell") and site.get("scope") == "module" and not site.get("supply") \
                and not site.get("boom"):
            # object lifetime: the site lives in short-lived code (a notebook cell typed again);
            # its code objects die when the call is over
            fns = self.client.cell(k)
            self.cell_fns = fns[:2]
            self.stat("fault_lifetime_site_in_fresh_cell")
            try:
                return self._derive_site(parent, k)
            finally:
                self.cell_fns = None
                fns[2]()
                del fns
        return self._derive_site(parent, k)

    def reent_hook(self, root_m, pick):
        "Runs inside the library's capture step of an outer site (see _derive_site)."
        sites = self.cfg["sites"]
        ks = [k for k in range(len(sites)) if sites[k].get("reent") is None
              and not sites[k].get("boom") and self.client.usable(k)]
        if not ks:
            return
        k2 = ks[pick % len(ks)]
        self.reent_depth = 1
        saved = self.last_op, self.last_crashed
        self.stat("fault_reentrant_capture")
        self.ev("reent_capture", k2)
        try:
            self.derive_site(root_m, k2)
        except Violation as v:
            if self.pending is None:
                self.pending = v
        finally:
            self.reent_depth = 0
            self.last_op, self.last_crashed = saved

    def _site_fns(self, k):
        return getattr(self, "cell_fns", None) or self.client.fns[k][:2]

    def _derive_site(self, parent, k):
        c = self.client
        site = self.cfg["sites"][k]
        if site.get("scope") == "param" and not site.get("supply"):
            self.stat("fault_lifetime_site_in_helper_function")
        if not c.usable(k) and ("C04" not in self.oracles or site.get("boom")):
            self.stat("site_skipped_unbound")
            return
        self.last_op = "derive-site"
        if "C04" in self.oracles and parent.stream.item_type is not Any:
            # a parent with a known item type (a dict result) may legitimately refuse the
            # site's lambda by a designed type error; C04 sites start from untyped items
            parent = next(x for x in self.live if x.root == parent.root and x.made_by in ("root", "dataset"))
            self.stat("site_parent_replaced_by_root")
        if not c.usable(k):
            # invoked while one of its captured names has no value.  What the call does about
            # THAT name the property leaves open (it may fail); if it returns a stream, every
            # captured name that does have a value must still have been replaced
            unbound = [n for n in site["free"] if not c.bound[n]]
            new, ex = self.builder(lambda: self._site_fns(k)[0](parent.stream))
            self.stat("site_invoked_with_unbound_name")
            self.ev("site_unbound", k, type(ex).__name__ if ex else "returned")
            self.last_op = "failed-derive"
            if ex is None and not c.blocked_by(k):
                lam = new.query_ast.args[1]
                allowed = {"sum", "len", "abs"} | {n.lstrip("@").split(".")[0] for n in unbound}
                loose = free_names(lam) - allowed
                if loose:
                    raise Violation("C04/scope", {"site": site["lam"], "emitted": _safe_unparse(lam),
                                                  "free_names_left_in_query": sorted(loose),
                                                  "unbound_at_call": unbound})
            return
        blocked = c.blocked_by(k)
        site_fn, ref_fn = self._site_fns(k)
        if site.get("boom"):
            new, ex = self.builder(lambda: site_fn(parent.stream))
            self.stat("fault_capture_step_raised")
            self.ev("site_boom", k, type(ex).__name__ if ex else "none")
            if ex is None and "C04" in self.oracles:
                raise Violation("C04/gate", {"site": site["lam"], "got": "no exception",
                                             "what": "captured object whose attribute raises"})
            self.last_op = "failed-derive"
            return
        refs = None
        if "C04" in self.oracles and (not blocked or site.get("arg_unused")):
            rf = ref_fn()
            le.reset_budget()
            refs = [le.outcome(rf, s) for s in SAMPLES]
        overflow_ok = bool(getattr(self, "derive_stack", None))
        hooked = (site.get("reent") is not None and not getattr(self, "reent_depth", 0)
                  and not overflow_ok and not getattr(self, "derive_crash", None))
        if hooked:
            # re-entrancy: reading the captured object's property makes ANOTHER call site run, in
            # the middle of this site's capture step
            root_m = next(x for x in self.live if x.root == parent.root and x.made_by in ("root", "dataset"))
            c.mod._reent_hook[0] = lambda: self.reent_hook(root_m, site["reent"])
        try:
            new, ex = self.builder(lambda: site_fn(parent.stream))
        finally:
            if hooked:
                c.mod._reent_hook[0] = None
        if overflow_ok and isinstance(ex, RecursionError):
            self.ev("site_overflow", k)
            self.last_op = "failed-derive"
            return
        if self.last_crashed:
            self.ev("site_crashed", k)
            self.last_op = "failed-derive"
            return
        self.site_calls[k] = self.site_calls.get(k, 0) + 1
        if self.site_calls[k] > 1 and self.rebinds_since.get(k):
            self.stat("probe_site_reinvoked_after_rebinding")
        self.rebinds_since[k] = False
        nones = c.none_bound(k)
        if nones and not blocked:
            # None: the library refuses it (ValueError) - emitting a correct literal would
            # also satisfy the property; what it must not do is emit a malformed query
            self.stat("site_none_bound_calls")
            if ex is not None:
                if "C04" in self.oracles and not isinstance(ex, ValueError):
                    raise Violation("C04/gate", {"site": site["lam"], "none_bound": nones,
                                                 "got": type(ex).__name__})
                self.ev("site_none_refused", k)
                return
        if blocked and ex is None and site.get("arg_unused"):
            # the non-transportable value is only handed to a parameter that the body never
            # reads: nothing of it has to reach the query, so the call need not refuse it -
            # but then the query must be right (checked below like any other)
            self.stat("site_blocked_value_dropped")
            blocked = []
        if blocked:
            self.stat("site_blocked_calls")
            if "C04" in self.oracles:
                if ex is None:
                    raise Violation("C04/gate", {"site": site["lam"], "blocked_by": blocked,
                                                 "values": [c.value[n] for n in blocked],
                                                 "got": "no exception"})
                if not isinstance(ex, ValueError):
                    raise Violation("C04/gate", {"site": site["lam"], "blocked_by": blocked,
                                                 "got": type(ex).__name__})
            self.ev("site_blocked", k)
            return
        if ex is not None:
            self.stat("site_raised")
            self.ev("site_raised", k, type(ex).__name__)
            if "C04" in self.oracles:
                raise Violation("C04/unexpected-raise",
                                {"site": site["lam"], "exc": type(ex).__name__,
                                 "msg": str(ex)[:200], "shadow": site.get("shadow")})
            return
        lam_rec = self.judge_site(site, k, new, refs)
        twin = None
        if "C16" in self.oracles and parent.twin is not None:
            twin, _ = self.builder(lambda: site_fn(parent.twin))
        self.stat("derive_ok")
        self.stat("derive_site")
        m = self.add_stream(new, parent.root, parent, site["op"], twin=twin, lam_rec=lam_rec)
        self.check_root(new, m.root, "derive-site")

    def judge_site(self, site, k, new, refs):
        "Oracles on the stream a call site returned: value at call, closedness, literal types."
        lam_rec = None
        c = self.client
        if "C04" in self.oracles:
            lam = new.query_ast.args[1]
            got = self.eval_lambda(lam)
            self.stat("c04_site_evals")
            self.stat("c04_ref_samples_ok", sum(1 for r in refs if r[0] == "ok"))
            fl = bool(site.get("flatten"))
            if fl:
                self.stat("c04_multi_generator_sites")
            if site.get("supply"):
                self.stat("c04_def_function_sites")
            if not self.same_where_ref_ok(refs, got, fl):
                bad = next(i for i, (g, r) in enumerate(zip(got, refs)) if r[0] == "ok" and (
                    _flat_outcome(g) != _flat_outcome(r) if fl else g != r))
                raise Violation(
                    "C04/value-at-call",
                    {"site": site["lam"], "emitted": _safe_unparse(lam), "sample": bad,
                     "python": repr(refs[bad])[:120], "query": repr(got[bad])[:120],
                     "bindings": {n: c.value[n] for n in site["free"]},
                     "shadow": site.get("shadow")})
            loose = free_names(lam) - {"sum", "len", "abs"}
            if loose:
                raise Violation("C04/scope", {"site": site["lam"], "emitted": _safe_unparse(lam),
                                              "free_names_left_in_query": sorted(loose)})
            for n in ast.walk(lam):
                # a literal is a value of exactly one of these types: an instance of a subclass
                # (an enum mix-in member, a numpy scalar) prints as something that is no literal,
                # and python itself refuses to compile a Constant holding one
                if isinstance(n, ast.Constant) and n.value is not None and type(n.value) not in (
                        str, int, float, bool, complex, bytes):
                    raise Violation("C04/gate", {"site": site["lam"], "what": "not a literal",
                                                 "constant": repr(n.value)[:80],
                                                 "type": type(n.value).__name__})
            lam_rec = {"dump": ast.dump(lam), "refs": refs, "site": k, "text": _safe_unparse(lam),
                       "flatten": fl}
        return lam_rec

    def op_md(self, op):
        parent = self.ref(op, "parent")
        self.last_op = "metadata-empty" if not op["md"] else "metadata"
        given = dict(op["md"])
        self.derive_crash = op.get("crash")
        new, ex = self.builder(lambda: parent.stream.MetaData(given))
        if op.get("edit_after"):
            self.stat("fault_caller_edits_argument_afterwards")
            given["edited"] = "by-caller-later"
        if ex is not None:
            self.stat("derive_raised")
            return
        twin = None
        if "C16" in self.oracles and parent.twin is not None:
            twin, _ = self.builder(lambda: parent.twin.MetaData(dict(op["md"])))
        if not op["md"]:
            self.stat("empty_metadata_made")
        m = self.add_stream(new, parent.root, parent, "MetaData", twin=twin)
        self.check_root(new, m.root, "metadata")

    def op_qmd(self, op):
        parent = self.ref(op, "parent")
        self.last_op = "qmetadata"
        if parent.made_by == "QMetaData":
            self.stat("probe_qmetadata_twice_in_a_row")
        if op.get("burst"):
            self.stat("fault_volume_burst_iterations")
        self.derive_stack = op.get("stack")
        self.derive_crash = op.get("crash")
        given = {k: qvalue(v) for k, v in op["md"].items()}  # the caller's own dict object
        decoded = dict(given)
        try:
            new, ex = self.builder(lambda: parent.stream.QMetaData(given))
        finally:
            self.derive_stack = None
        if op.get("edit_after"):
            # ... which the caller goes on using: a settings dict changed for the next variation
            self.stat("fault_caller_edits_argument_afterwards")
            for k in list(given):
                given[k] = "edited-by-caller-later"
            given["k2" if "k2" not in given else "k1"] = "added-by-caller-later"
        if ex is not None:
            self.stat("derive_raised")
            if "C16" in self.oracles and not op.get("stack") and not self.last_crashed:
                # nothing about a dict of values gives QMetaData a reason to fail
                raise Violation("C16/lookup/qmetadata-raised",
                                {"md": repr(decoded)[:200], "exc": repr(ex)[:200],
                                 "inherited": {k: repr(parent.md.get(k))[:60] for k in decoded}})
            return
        md = dict(parent.md)
        md.update(decoded)
        for k in op["md"]:
            if k in parent.md:
                self.stat("qmd_repeated_key")
        m = self.add_stream(new, parent.root, parent, "QMetaData", twin=parent.twin, md=md)
        self.check_root(new, m.root, "qmetadata")
        if "C16" in self.oracles and parent.twin is not None:
            from func_adl.ast.ast_hash import calc_ast_hash

            if ast.dump(new.query_ast) != ast.dump(parent.twin.query_ast) or calc_ast_hash(
                    new.query_ast) != calc_ast_hash(parent.twin.query_ast):
                raise Violation("C16/backend", {"what": "dump/hash differ right after QMetaData",
                                                "md": op["md"]})

    def op_open_ds(self, op):
        "A dataset object created while others are in use: nothing that exists may change."
        self.last_op = "open-dataset"
        idx = len(self.datasets)
        t = self.zoo.EVT[op["typed"]] if op.get("typed", -1) >= 0 else None
        cls = self.WrappedDataset if op.get("wrapped") else self.FakeDataset
        self.derive_crash = op.get("crash")
        ds, ex = self.builder(lambda: cls(idx, t, op.get("extra")))
        if ex is not None:
            self.stat("derive_raised")
            return
        self.datasets[idx] = ds
        self.stat("datasets_opened_mid_history")
        m = self.add_stream(ds, idx, None, "dataset", twin=ds)
        self.check_root(ds, m.root, "open-dataset")

    def op_lookup_deep(self, op):
        "lookup_query_metadata with few frames left: RecursionError or the right answer."
        from func_adl.ast.meta_data import lookup_query_metadata

        m = self.ref(op, "stream")
        self.last_op = "lookup-deep"
        if op.get("crash"):
            # the look-up is hit by an asynchronous exception at its k-th line instead
            cp = crash_at(op["crash"][0], crash_exception(op["crash"][1], "in a look-up"))
            self.stat("fault_crash_point_armed")
            try:
                with cp:
                    got = lookup_query_metadata(m.stream, op["key"])
            except BaseException as ex:
                if ex is not cp.exc:
                    raise
                self.stat("fault_crash_point_fired")
                self.stat("fault_crash_point_in_lookup")
                self.ev("crash_point", "lookup", m.idx)
                return
            if cp.fired:
                self.stat("crash_point_swallowed")
                return
        elif op.get("stack"):
            self.stat("fault_small_stack_lookup")
            try:
                with small_stack(op["stack"]):
                    got = lookup_query_metadata(m.stream, op["key"])
            except RecursionError:
                self.stat("lookup_overflows")
                self.ev("lookup_overflow", m.idx)
                return
        else:  # an ordinary look-up made by the program at this point of the history
            self.stat("plain_lookups")
            got = lookup_query_metadata(m.stream, op["key"])
        exp = m.md.get(op["key"])
        self.ev("lookup_deep", m.idx, op["key"], repr(got))
        if "C16" in self.oracles and not same_qvalue(got, exp):
            sub = ("lost-earlier-key" if exp is not None and got is None
                   else "phantom" if exp is None else "stale-or-leaked-value")
            raise Violation(f"C16/lookup/{sub}",
                            {"stream": m.idx, "key": op["key"], "got": repr(got),
                             "expected": repr(exp), "after": "lookup with few frames left",
                             "frames": op.get("stack")})

    def op_term(self, op):
        parent = self.ref(op, "parent")
        self.last_op = "terminal"
        def mk(s, cols=None):
            if cols is None:
                cols = list(op["cols"]) if isinstance(op["cols"], list) else op["cols"]
            if op.get("alias"):  # the lower-case aliases, arguments by keyword
                if op["kind"] == "pandas":
                    return s.as_pandas(columns=cols)
                if op["kind"] == "awkward":
                    return s.as_awkward(columns=cols)
                if op["kind"] == "root":
                    return s.as_ROOT_tree("f.root", "tree", columns=cols)
                return s.as_parquet("f.parquet", columns=cols)
            if op["kind"] == "pandas":
                return s.AsPandasDF(cols)
            if op["kind"] == "awkward":
                return s.AsAwkwardArray(cols)
            if op["kind"] == "root":
                return s.AsROOTTTree("f.root", "tree", cols)
            return s.AsParquetFiles("f.parquet", cols)

        given = list(op["cols"]) if isinstance(op["cols"], list) else op["cols"]
        self.derive_crash = op.get("crash")
        new, ex = self.builder(lambda: mk(parent.stream, given))
        if op.get("edit_after") and isinstance(given, list):
            self.stat("fault_caller_edits_argument_afterwards")
            given.append("added-by-caller-later")
        if ex is not None:
            self.stat("derive_raised")
            return
        twin = None
        if "C16" in self.oracles and parent.twin is not None:
            twin, _ = self.builder(lambda: mk(parent.twin))
        self.stat("terminal_made")
        m = self.add_stream(new, parent.root, parent, "terminal", twin=twin)
        self.check_root(new, m.root, "terminal")

    def op_fail(self, op):
        "An operator call built to raise by design: a 'crash' in the middle of a derive."
        parent = self.ref(op, "parent")
        kind = op["kind"]
        self.last_op = "failed-derive"
        typed = parent.root is not None and self.datasets[parent.root].item_type is not Any
        k = op["lam"] % len(self.cfg["pool"])
        if kind == "where_nonbool":
            fn = lambda: parent.stream.Where(  # noqa: E731
                self.shared[k] if self.cfg["pool"][k][0] != "Where" else "lambda e: e.x + 1")
        elif kind == "missing_arg":
            if not typed or parent.made_by not in ("root", "dataset", "Where", "MetaData", "QMetaData"):
                return
            fn = lambda: parent.stream.Select("lambda e: e.need()")  # noqa: E731
        elif kind == "cb_raise":
            if not typed:
                return
            self.zoo.FAULT["cb_raise"] = True
            fn = lambda: parent.stream.Select(  # noqa: E731
                self.shared[k] if "fsq" in self.cfg["pool"][k][1] else "lambda e: fsq(e.met())")
        elif kind in NESTED_FAIL_KINDS:
            if not typed or parent.made_by not in ("root", "dataset", "Where", "MetaData", "QMetaData"):
                return
            src = {"nested_where_nonbool": "lambda e: e.jets().Where(lambda j: j.pt())",
                   "nested_cb_raise": "lambda e: e.jets().Select(lambda j: j.eta())",
                   "nested_bad_lambda": "lambda e: e.jets().Select(lambda j, k: j.pt())"}[kind]
            if kind == "nested_cb_raise":
                self.zoo.FAULT["cb_raise"] = "jet"  # only the callbacks of the nested item class
            arg = src if op["lam"] % 2 else self.parse_lambda(src)
            fn = lambda: parent.stream.Select(arg)  # noqa: E731
        else:
            fn = lambda: parent.stream.Select("lambda e, f: e")  # noqa: E731
        try:
            new, ex = self.builder(fn)
        finally:
            self.zoo.FAULT["cb_raise"] = False
        if ex is None:
            # did not fail after all (e.g. shared lambda happened to be boolean) - a plain derive
            self.stat("fail_op_succeeded")
            m = self.add_stream(new, parent.root, parent, "Select" if kind != "where_nonbool" else "Where",
                                twin=None, lam_rec=None)
            self.check_root(new, m.root, "derive")
            return
        self.stat("probe_failed_derive")
        self.stat(f"fault_derive_fail_{kind}")
        self.ev("derive_fail", kind, type(ex).__name__)

    def op_drop(self, op):
        """Object lifetime: the program lets go of a stream - or of all it can (a loop variable
        overwritten, a notebook cell re-run).  Its own nodes die - at once, or at the next
        collection when they sit in a cycle - and their addresses are re-used by whatever is
        built next.  Streams with an execution still in flight, dataset roots and streams that
        callbacks keep stay."""
        import gc
        import weakref

        cands = [m for m in self.live if m.made_by not in ("root", "dataset")
                 and not any(c["m"] is m for c in self.calls)]
        gone = []
        if cands and op.get("all"):
            gone = cands
        elif cands:
            r = op["stream"]
            if isinstance(r, dict):
                m = self.by_id.get(r.get("ref"))
            elif op.get("live_index"):  # the very stream an earlier op named by this index
                m = self.live[r % len(self.live)]
            elif r == -1:
                m = self.live[-1]
            else:
                m = cands[r % len(cands)]
            if m is not None and m in cands:
                self.cur_resolved["stream"] = {"ref": m.op_id}
                gone = [m]
            m = None
        died = []
        wrs = []
        for m in gone:
            self.live.remove(m)
            self.by_id.pop(m.op_id, None)
            self.stat("fault_lifetime_stream_dropped")
            self.ev("drop", m.idx)
            wrs.append(weakref.ref(m.stream, lambda _r: died.append(1)))
        n = len(gone)
        m = cands = gone = None
        if op.get("burst"):
            self.stat("fault_volume_burst_iterations")
        if op.get("gc"):
            gc.collect()
            self.stat("lifetime_gc_collect")
        # reach: did the objects really die (nothing in the harness holds on to them)?
        self.stat("probe_lifetime_stream_object_died", len(died))
        if n - len(died):
            self.stat("lifetime_stream_still_referenced", n - len(died))
        self.last_op = "drop"

    def op_rebind(self, op):
        self.last_op = "rebind"
        self.client.rebind(op["name"], op["value"])
        self.stat("rebinds")
        if not cl.transportable(op["value"]):
            self.stat("fault_nontransportable_binding")
        for k, s in enumerate(self.cfg["sites"]):
            if op["name"] in s["free"]:
                self.rebinds_since[k] = True

    def op_unbind(self, op):
        self.last_op = "unbind"
        if self.client.unbind(op["name"]):
            self.stat("fault_unbind")

    def op_touch(self, op):
        self.last_op = "touch-source"
        self.client.touch(op["kind"])
        self.stat("fault_source_touch")

    def op_join(self, op):
        "Transient two-root query: must be rejected by the root lookup."
        from func_adl import find_EventDataset

        p, o = self.ref(op, "parent"), self.ref(op, "other")
        self.last_op = "join"
        lam = ast.Lambda(
            args=ast.arguments(posonlyargs=[], args=[ast.arg(arg="e")], kwonlyargs=[],
                               kw_defaults=[], defaults=[]),
            body=o.stream.query_ast)
        new, ex = self.builder(lambda: p.stream.Select(lam))
        if ex is not None:
            return
        self.stat("probe_two_root_query")
        if "C12" in self.oracles:
            try:
                find_EventDataset(new.query_ast)
            except Exception:
                return
            raise Violation("C12/root", {"what": "two-root query accepted"})

    def op_rootless(self, op):
        from func_adl import ObjectStream, find_EventDataset

        self.last_op = "rootless"
        k = op["lam"] % len(self.cfg["pool"])
        kind, src = self.cfg["pool"][k]
        s0 = ObjectStream(ast.Name("not_a_dataset", ast.Load()))
        new, ex = self.builder(lambda: getattr(s0, kind)(src))
        if ex is not None:
            return
        self.stat("probe_rootless_query")
        if "C12" not in self.oracles:
            return
        try:
            find_EventDataset(new.query_ast)
        except Exception:
            pass
        else:
            raise Violation("C12/root", {"what": "rootless query accepted by root lookup"})
        n0 = self.exec_starts
        try:
            new.value()
        except Exception:
            pass
        else:
            raise Violation("C12/root", {"what": "rootless value() returned"})
        if self.exec_starts != n0:
            raise Violation("C12/route", {"what": "rootless value() reached an executor"})

    # -- executions ---------------------------------------------------------------------------
    def new_call(self, m, plan, override, via, timeout, titled=True, title_pool=None):
        no = len(self.calls)
        title = f"t{no}" if titled else None
        if title_pool is not None:  # titles may repeat between calls (a retry keeps its title)
            title = [None, "q0", "q1"][title_pool % 3]
        call = {"no": no, "m": m, "title": title, "plan": plan, "via": via, "timeout": timeout,
                "override": override, "starts": [], "res": None, "began": False,
                "may_cancel": plan[0] == "stall", "err": None, "has_ret": False, "ret": None,
                "spawn_t": self.world.now, "done_t": None, "exp_dump": None,
                "peer_cancelled": False, "task": None, "exp_twin": None, "exp_hash": None}
        if plan[0] == "error":
            call["err"] = ERRS[plan[2]](f"injected for call {no}")
            if plan[2] in BASE_ERRS:
                self.stat("fault_executor_raised_base_exception")
            if plan[2] == "SelfCancel":
                call["may_cancel"] = True  # a layer in between may re-create the CancelledError
        self.calls.append(call)
        if title is not None and title_pool is None:
            self.by_title[title] = call
        self.stat(f"plan_{plan[0]}")
        return call

    def expectations(self, call):
        "Taken immediately before the library call (no scheduling point in between)."
        m = call["m"]
        call["began"] = True
        if "C12" in self.oracles or "C16" in self.oracles:
            call["exp_dump"] = ast.dump(strip_empty_md(m.stream.query_ast))
        if "C16" in self.oracles and m.twin is not None:
            from func_adl.ast.ast_hash import calc_ast_hash

            t = strip_empty_md(m.twin.query_ast)
            call["exp_twin"] = ast.dump(t)
            call["exp_hash"] = calc_ast_hash(t)
        if any(c2 is not call and c2["m"] is m and c2["began"] and c2["res"] is None
               for c2 in self.calls):
            self.stat("probe_same_stream_executed_concurrently")

    @staticmethod
    def override_no(call):
        k = call["no"] % 6
        # the synchronous form cannot stall, and a planned interrupt needs a worker that waits
        if k == 5 and (call["plan"][0] == "stall" or call.get("interrupt")):
            k = 0
        return k

    def kwargs_for(self, call):
        kw = {}
        if call["override"]:
            kw["executor"] = self.overrides[self.override_no(call)]
        if call["title"] is not None:
            kw["title"] = call["title"]
        return kw

    def invoke(self, call, fn):
        "Call value / value_async with keyword or (every third call) positional arguments."
        kw = self.kwargs_for(call)
        if call["no"] % 3 == 2:
            return fn(kw.get("executor"), kw.get("title"))
        return fn(**kw)

    def run_sync(self, call, mt=False):
        "stream.value(...) on the current thread (blocks the outer loop, as in production)."
        if not call["began"]:
            self.expectations(call)
        t0 = self.world.now
        tok = CURRENT_CALL.set(call)
        prev = self.sync_call
        if not mt:
            self.sync_call = call
        cp = call.get("crash_point") if not mt else None
        tok2 = None
        if cp is not None:
            self.stat("fault_crash_point_armed")
            tok2 = CURRENT_CRASH.set(cp)
            self.world.crash = cp  # armed on make_sync's worker thread
        try:
            r = self.invoke(call, call["m"].stream.value)
            call["res"] = ("ret", r)
        except BaseException as e:
            call["res"] = self.classify_exc(call, e)
        finally:
            if cp is not None:
                self.world.crash = None
                CURRENT_CRASH.reset(tok2)
                self.note_crash(call, cp)
            CURRENT_CALL.reset(tok)
            if call.get("interrupt_sent"):
                self.finish_abandoned(call)
            if not mt:
                self.sync_call = prev
                self.sync_block += self.world.now - t0
            call["done_t"] = self.world.now
        self.ev("call_done", call["no"], call["res"][0])

    def arm_crash(self, op, call):
        c = op.get("crash")
        if c and self.world.mt is None:
            kind = c[1]
            if call["via"] != "sync" and kind == "keyboard":
                kind = "abort"  # a KeyboardInterrupt inside a task tears the whole loop down
            call["crash_point"] = crash_at(c[0], crash_exception(kind, f"in call {call['no']}"))
            call["crash_kind"] = kind

    def note_crash(self, call, cp):
        if cp.fired:
            self.stat("fault_crash_point_fired")
            self.stat(f"fault_crash_point_{call['crash_kind']}")
            self.stat("fault_crash_point_in_value")
            call["crashed"] = True
            self.ev("crash_point", "call", call["no"], cp.k)
        else:
            self.ev("crash_point", "call", call["no"], "not-reached")

    def arm_backend(self, op, call):
        if op.get("backend"):
            call["backend"] = op["backend"]
        if op.get("reenter"):
            call["reenter"] = op["reenter"]

    def arm_interrupt(self, op, call):
        if op.get("interrupt") and self.world.mt is None:
            call["interrupt"] = True

    def finish_abandoned(self, call):
        """The caller was thrown out of value(); its executor is still parked.  Let it finish
        now (the caller's thread waits for the worker thread, so nothing runs concurrently)."""
        self.stat("fault_caller_interrupted")
        call["gate"].release()
        left = list(self.world.abandoned)
        del self.world.abandoned[:]
        for t in left:
            t.join()

    async def one(self, call):
        try:
            if call["via"] == "sync":
                self.run_sync(call)
                return
            self.expectations(call)
            CURRENT_CALL.set(call)  # this task's own context
            cp = call.get("crash_point")
            if cp is not None:
                # lines are counted only while this call's own task is running
                self.stat("fault_crash_point_armed")
                CURRENT_CRASH.set(cp)
                cp.active = lambda: CURRENT_CALL.get() is call
                sys.settrace(cp.tracer)
            coro = self.invoke(call, call["m"].stream.value_async)
            if call["timeout"] is not None:
                r = await asyncio.wait_for(coro, call["timeout"])
            else:
                r = await coro
            call["res"] = ("ret", r)
        except BaseException as e:
            call["res"] = self.classify_exc(call, e)
        finally:
            cp = call.get("crash_point")
            if cp is not None and call["via"] != "sync":
                if sys.gettrace() == cp.tracer:
                    sys.settrace(None)
                self.note_crash(call, cp)
        call["done_t"] = self.world.now
        self.ev("call_done", call["no"], call["res"][0])

    @staticmethod
    def classify_exc(call, e):
        "What the caller saw.  The executor's own planned exception wins by identity."
        if e is call["err"]:
            return ("exc", e)
        if isinstance(e, asyncio.CancelledError):
            return ("cancelled",)
        if isinstance(e, asyncio.TimeoutError):
            return ("timeout", e)
        return ("exc", e)

    def op_exec_sync(self, op):
        m = self.ref(op, "stream")
        self.last_op = "execute"
        call = self.new_call(m, op["plan"], op["override"], "sync", None, titled=op["titled"])
        self.arm_interrupt(op, call)
        self.arm_backend(op, call)
        self.arm_crash(op, call)
        n0 = self.exec_starts
        if op.get("stack"):
            # resource fault: the library runs with few frames left; a deep recursion overflows
            # as it would for a much longer query.  The call may then fail with RecursionError
            # (and only with that) before any executor starts - never return wrong data.
            call["small_stack"] = True
            self.stat("fault_small_stack")
            self.expectations(call)  # harness work is done before the window opens
            self.world.small_stack = op["stack"]  # applied inside make_sync's worker thread
            self.stack_window = small_stack(0)
            try:
                self.run_sync(call)
            finally:
                self.world.small_stack = None
                self.stack_window.restore()
                self.stack_window = None
            if call["res"][0] == "exc" and isinstance(call["res"][1], RecursionError) \
                    and not call["starts"]:
                self.stat("small_stack_overflows")
                self.ev("call_overflow", call["no"])
                return
        else:
            self.run_sync(call)
        self.stat("exec_sync")
        if call["title"] is None and "C12" in self.oracles and not call.get("reenter") \
                and self.exec_starts - n0 != len(call["starts"]):
            raise Violation("C12/route", {"what": "untitled call: executor starts not attributable"})
        self.check_call(call)

    def op_spawn(self, op, loop):
        m = self.ref(op, "stream")
        self.last_op = "execute"
        call = self.new_call(m, op["plan"], op["override"], op["via"], op["timeout"],
                             title_pool=op.get("title_pool"))
        if op.get("title_pool") is not None:
            self.stat("calls_with_repeated_title")
        if op["via"] == "sync":
            self.arm_interrupt(op, call)
        self.arm_backend(op, call)
        self.arm_crash(op, call)
        t = loop.create_task(self.one(call), name=f"call-{call['no']}")
        call["task"] = t
        call["op_id"] = self.cur_id
        self.call_by_id[self.cur_id] = call
        self.tasks.append(call)
        self.stat("spawn")
        if op["plan"][0] == "stall":
            loop.call_later(op["plan"][1], t.cancel)
            self.stat("fault_stall_then_cancel")
        if op["timeout"] is not None:
            self.stat("fault_timeout_armed")

    def op_mt(self, op):
        """Several simulated user threads call value() concurrently: their nested event loops
        interleave step by step under the world's baton scheduler, on the shared virtual clock.
        The outer loop is blocked meanwhile (as for any synchronous call made from a coroutine)."""
        self.last_op = "execute"
        plans = []
        for ti, th in enumerate(op["threads"]):
            calls = []
            for j, c in enumerate(th):
                m = self.ref(c, "stream")
                self.cur_resolved.setdefault("threads_resolved", {})[f"{ti}.{j}"] = self.cur_resolved.pop("stream")
                calls.append(self.new_call(m, c["plan"], c["override"], "sync", None))
            plans.append(calls)
        if "threads_resolved" in self.cur_resolved:
            res = self.cur_resolved.pop("threads_resolved")
            self.cur_resolved["threads"] = [
                [{**c, "stream": res[f"{ti}.{j}"]} for j, c in enumerate(th)]
                for ti, th in enumerate(op["threads"])]
        w = self.world
        t0 = w.now

        def user(calls):
            def fn():
                for c in calls:
                    self.run_sync(c, mt=True)
                    w.mt.yield_point(None)
            return fn

        pp = op.get("p") or 0.0
        if pp:
            from .core import func_adl_src
            from .preempt import Preempt

            Preempt(None, 0, "")._preimport()  # no import (lock) inside the block
            self.stat("fault_threads_preempted_inside_value")
        vloop.run_threads(w, [user(cs) for cs in plans], pp,
                          (func_adl_src().rstrip("/") + "/func_adl/") if pp else None)
        if pp:
            self.stat("thread_switches_inside_the_library", w.last_mt.line_switches)
        self.sync_block += w.now - t0
        self.stat("fault_multi_thread_block")
        self.stat("mt_calls", sum(len(cs) for cs in plans))
        order = [c["no"] for cs in plans for c in cs]
        ends = [n for n in self.end_order if n in set(order)]
        if ends != sorted(ends):
            self.stat("probe_threads_completed_out_of_issue_order")
        for cs in plans:
            for c in cs:
                self.check_call(c)

    def op_mt_lib(self, op):
        """Several user threads use the library at the same time - deriving, looking metadata
        up, hashing, cleaning a query - and the simulator decides after which LINE of the
        library another thread runs (sim/preempt.py).  Every result is judged as if the call
        had been made alone."""
        import random

        from func_adl.ast.ast_hash import calc_ast_hash
        from func_adl.ast.meta_data import lookup_query_metadata, remove_empty_metadata

        from .core import func_adl_src
        from .preempt import Preempt

        self.last_op = "threads"
        jobs = []
        for i, t in enumerate(op["threads"]):
            kind = t["kind"]
            if isinstance(t["stream"], dict):  # {"root": k}: the root stream of dataset k
                m = self.live[t["stream"]["root"] % len(self.cfg["datasets"])]
            else:
                m = self.live[t["stream"] % len(self.live)]
            if kind == "derive":
                pk, src = self.cfg["pool"][t["lam"] % len(self.cfg["pool"])]
                if t.get("src"):
                    pk, src = t["src"]
                # the same derive made alone, just before: what the threaded one must equal
                alone, ex0 = self.builder(lambda: getattr(m.stream, pk)(src))
                exp = None if ex0 is not None else self.snap_of(alone)
                del alone
                jobs.append((kind, m, (pk, src, exp), lambda m=m, pk=pk, src=src: getattr(m.stream, pk)(src)))
            elif kind == "site":
                k = t["lam"] % len(self.cfg["sites"])
                site = self.cfg["sites"][k]
                c = self.client
                if (site.get("boom") or site.get("reent") is not None or site.get("cell")
                        or not c.usable(k) or c.none_bound(k)
                        or (c.blocked_by(k) and site.get("arg_unused"))):
                    continue
                if c.blocked_by(k):
                    # a refusal (ValueError) is due whoever else is using the library meanwhile
                    jobs.append(("blocked", m, (k, site), lambda m=m, k=k: c.fns[k][0](
                        next(x for x in self.live if x.root == m.root and x.made_by in ("root", "dataset")).stream)))
                    continue
                root_m = next(x for x in self.live if x.root == m.root and x.made_by in ("root", "dataset"))
                refs = None
                if "C04" in self.oracles:
                    rf = c.fns[k][1]()
                    le.reset_budget()
                    refs = [le.outcome(rf, smp) for smp in SAMPLES]
                jobs.append((kind, root_m, (k, site, refs),
                             lambda root_m=root_m, k=k: c.fns[k][0](root_m.stream)))
            elif kind == "lookup":
                key = KEYS[t["lam"] % len(KEYS)]
                jobs.append((kind, m, key, lambda m=m, key=key: lookup_query_metadata(m.stream, key)))
            elif kind == "hash":
                jobs.append((kind, m, calc_ast_hash(m.stream.query_ast),
                             lambda m=m: calc_ast_hash(m.stream.query_ast)))
            else:  # clean
                jobs.append((kind, m, ast.dump(strip_empty_md(m.stream.query_ast)),
                             lambda m=m: ast.dump(remove_empty_metadata(m.stream.query_ast))))
        if len(jobs) < 2:
            return
        rng = random.Random(mix(self.case["sched_seed"], "preempt", self.cur_id))
        pr = Preempt(rng, op["p"], func_adl_src().rstrip("/") + "/func_adl/")
        if op.get("opcodes"):
            # bytecode granularity, race-directed (threads parked right before they write a
            # module global - always - or an attribute / item - now and then)
            pr.opcodes = True
            pr.p = op["p"] / 60.0
            pr.directed = 0.01
            pr.max_switches = 6000
        elif op.get("stop"):
            # one thread is parked at its line N while the others run to the end; N is uniform
            # over the lines that call executes when it is made alone (counted now)
            pr._preimport()
            counts = []
            for j in jobs:
                cnt = Preempt(rng, 0.0, pr.prefix)
                cnt.slots = []
                sys.settrace(cnt._tracer)
                try:
                    j[3]()
                except Exception:
                    pass
                finally:
                    sys.settrace(None)
                counts.append(cnt.points)
            pr.stop_counts = counts
            pr.stop_frac = op.get("frac", rng.random())
        n0 = self.exec_starts
        res = pr.run([j[3] for j in jobs])
        self.stat("fault_threads_inside_the_library")
        if op.get("focused"):
            self.stat("fault_threads_focused_block")
        self.stat("thread_switches_inside_the_library", pr.switches)
        self.ev("mt_lib", len(jobs), pr.switches, pr.points)
        if self.exec_starts != n0 and "C12" in self.oracles:
            raise Violation("C12/build-exec", {"op": "threads"})
        for (kind, m, info, _), (st, val) in zip(jobs, res):
            if kind == "blocked":
                if st == "ok" and "C04" in self.oracles:
                    raise Violation("C04/gate", {"site": info[1]["lam"], "got": "no exception",
                                                 "blocked_by": self.client.blocked_by(info[0]),
                                                 "what": "refused when called alone, let through while another thread was deriving"})
                if st == "exc" and not isinstance(val, ValueError) and "C04" in self.oracles:
                    raise Violation("C04/gate", {"site": info[1]["lam"], "got": type(val).__name__})
                continue
            if st == "exc":
                if kind == "derive" and isinstance(val, Exception):
                    self.stat("derive_raised")  # a designed refusal (type error ...) as when alone
                    continue
                raise Violation("C11/snapshot/threads" if self.prop == "C11" else f"{self.prop}/threads",
                                {"kind": kind, "raised": repr(val)[:200],
                                 "what": "a library call failed only because another thread was using the library"})
            if kind == "derive":
                if info[2] is not None and self.snap_of(val) != info[2] and "C11" in self.oracles:
                    raise Violation("C11/snapshot/threads", {
                        "what": "a stream derived while another thread was deriving differs from the same derive made alone",
                        "alone": info[2][0][:300], "with_threads": ast.dump(val.query_ast)[:300]})
                m2 = self.add_stream(val, m.root, m, info[0], twin=None, lam_rec=None)
                self.check_root(val, m2.root, "derive")
            elif kind == "site":
                k, site, refs = info
                lam_rec = self.judge_site(site, k, val, refs)
                m2 = self.add_stream(val, m.root, m, site["op"], twin=None, lam_rec=lam_rec)
                self.check_root(val, m2.root, "derive-site")
            elif kind == "lookup":
                exp = m.md.get(info)
                if "C16" in self.oracles and not same_qvalue(val, exp):
                    raise Violation("C16/lookup/threads", {"key": info, "got": repr(val), "expected": repr(exp)})
            elif kind == "hash":
                if val != info and "C16" in self.oracles:
                    raise Violation("C16/backend", {"what": "hash differs when another thread uses the library"})
            elif kind == "clean":
                if val != info and "C12" in self.oracles:
                    raise Violation("C12/ast", {"what": "cleaned query differs when another thread uses the library",
                                                "got": val[:300], "expected": info[:300]})

    def op_cancel(self, op, loop):
        if not self.tasks:
            return
        r = op["task"]
        if isinstance(r, dict):
            call = self.call_by_id.get(r["ref"]) or self.tasks[r["ref"] % len(self.tasks)]
        else:
            call = self.tasks[r % len(self.tasks)]
        self.cur_resolved["task"] = {"ref": call["op_id"]}
        if call["res"] is not None:
            return
        self.last_op = "cancel"
        call["may_cancel"] = True
        loop.call_later(op["after"], call["task"].cancel)
        self.stat("fault_cancel_armed")

    def check_call(self, call):
        "Per-call oracles over the recorded history (C12, C16/backend, C04 at the executor)."
        if call.get("judged"):
            return
        res = call["res"]
        st = call["starts"]
        plan = call["plan"]
        if res is None:
            raise Violation("C12/liveness", {"call": call["no"], "what": "no result recorded"})
        if res[0] == "exc" and isinstance(res[1], (vloop.Deadlock, vloop.StepCap)):
            raise Violation("C12/liveness", {"call": call["no"], "what": repr(res[1])})
        if call.get("interrupt_sent") and res[0] == "exc" and isinstance(res[1], KeyboardInterrupt) \
                and res[1] is not call["err"]:
            # the caller was interrupted: it has no result; the executor ran once all the same
            self.stat("result_caller_interrupted")
            if "C12" in self.oracles and len(st) != 1:
                raise Violation("C12/count", {"call": call["no"], "starts": len(st),
                                              "what": "interrupted caller"})
            res = call["res"] = ("interrupted",)
        crashed = False
        if call.get("crashed") and res[0] == "exc" and res[1] is call["crash_point"].exc:
            # the call itself was hit by the injected asynchronous exception: it has no result,
            # and its executor ran at most once (before or after the point of the crash)
            self.stat("result_call_crashed")
            crashed = True
        self.stat(f"result_{res[0]}")
        m = call["m"]
        if "C12" in self.oracles:
            if len(st) > 1:
                raise Violation("C12/count", {"call": call["no"], "starts": len(st)})
            if len(st) == 0 and res[0] in ("ret", "exc") and not crashed:
                raise Violation("C12/count", {"call": call["no"], "starts": 0, "res": res[0],
                                              "exc": repr(res[1])[:200]})
            if st:
                h = st[0]
                exp_peer = f"OV{self.override_no(call)}" if call["override"] else m.root
                if h["peer"] != exp_peer or not h["self_ok"]:
                    raise Violation("C12/route", {"call": call["no"], "expected": exp_peer,
                                                  "got": h["peer"], "self_ok": h["self_ok"]})
                if h["dump"] != call["exp_dump"]:
                    raise Violation("C12/ast", {"call": call["no"], "got": h["dump"][:400],
                                                "expected": call["exp_dump"][:400]})
                if h["title"] != call["title"]:
                    raise Violation("C12/title", {"call": call["no"], "got": h["title"]})
                if h["root_obj"] is not self.datasets[m.root]:
                    raise Violation("C12/root", {"what": "root not recoverable from received AST",
                                                 "call": call["no"]})
            if res[0] == "ret":
                if not call["has_ret"] or plan[0] != "ok":
                    raise Violation("C12/result", {"call": call["no"], "plan": plan[0],
                                                   "what": "returned although executor did not"})
                if res[1] is not call["ret"] and not (
                        plan[2] in ("zero", "none") and res[1] == call["ret"]
                        and type(res[1]) is type(call["ret"])):
                    raise Violation("C12/result", {"call": call["no"], "got": repr(res[1])[:80],
                                                   "plan": plan[2]})
            elif res[0] == "exc" and crashed:
                pass
            elif res[0] == "exc":
                if plan[0] != "error" or res[1] is not call["err"]:
                    raise Violation("C12/exception", {"call": call["no"], "plan": plan[0],
                                                      "got": repr(res[1])[:200]})
            elif res[0] == "cancelled":
                if not call["may_cancel"]:
                    raise Violation("C12/exception", {"call": call["no"],
                                                      "what": "spurious cancellation"})
            elif res[0] == "timeout":
                if call["timeout"] is None:
                    raise Violation("C12/exception", {"call": call["no"],
                                                      "what": "spurious timeout"})
            # bounded liveness: own deadline + time the loop was blocked by sync calls
            own = max([plan[1]] + ([call["timeout"]] if call["timeout"] is not None else []))
            if call["done_t"] is not None and call["done_t"] - call["spawn_t"] > own + self.sync_block_total() + 4000.0 + 1e-6:
                raise Violation("C12/liveness", {"call": call["no"], "took": call["done_t"] - call["spawn_t"]})
        if "C16" in self.oracles and st and call["exp_twin"] is not None:
            h = st[0]
            if h["dump"] != call["exp_twin"] or h["hash"] != call["exp_hash"]:
                raise Violation("C16/backend", {"call": call["no"],
                                                "what": "executor saw a query that differs from the chain built without QMetaData",
                                                "got": h["dump"][:300], "twin": call["exp_twin"][:300]})
            self.stat("c16_backend_checks")
        if "C04" in self.oracles and st:
            got = chain_lambdas(st[0]["ast"])
            exp = m.lams
            if len(got) != len(exp):
                raise Violation("C04/drift", {"where": "executor", "what": "stage count differs",
                                              "call": call["no"]})
            for g, rec in zip(got, exp):
                if rec is not None:
                    self.check_lambda_still(rec, g, "executor", m.idx)
                    self.stat("c04_executor_lambda_checks")
        # a judged call keeps nothing alive (the stream may be dropped later in the history):
        # no stream, no received AST, no traceback (its frames hold the stream), no task
        call["judged"] = True
        call["m"] = None
        for h in st:
            h["ast"] = None
        for e in (call.get("err"), res[1] if len(res) > 1 else None,
                  getattr(call.get("crash_point"), "exc", None)):
            if isinstance(e, BaseException):
                e.__traceback__ = None
        if call.get("task") is not None and call["task"].done():
            call["task"] = None

    def sync_block_total(self):
        return self.sync_block

    # -- main ---------------------------------------------------------------------------------
    async def main(self):
        loop = asyncio.get_running_loop()
        self.main_loop = loop
        self.tasks = []
        self.shared_uses = {}
        self.site_calls = {}
        self.rebinds_since = {}
        checked = 0
        for pos, op in enumerate(self.case["ops"]):
            k = op["op"]
            self.cur_id = op.get("id", pos)
            self.cur_resolved = {}
            self.ev("op", k)
            if k == "derive":
                self.op_derive(op)
            elif k == "md":
                self.op_md(op)
            elif k == "qmd":
                self.op_qmd(op)
            elif k == "term":
                self.op_term(op)
            elif k == "lookup_deep":
                self.op_lookup_deep(op)
            elif k == "open_ds":
                self.op_open_ds(op)
            elif k == "derive_fail":
                self.op_fail(op)
            elif k == "rebind":
                self.op_rebind(op)
            elif k == "unbind":
                self.op_unbind(op)
            elif k == "touch":
                self.op_touch(op)
            elif k == "exec_sync":
                self.op_exec_sync(op)
            elif k == "spawn":
                self.op_spawn(op, loop)
            elif k == "cancel":
                self.op_cancel(op, loop)
            elif k == "sleep":
                await asyncio.sleep(op["dt"])
            elif k == "drain":
                await self.drain()
            elif k == "join":
                self.op_join(op)
            elif k == "rootless":
                self.op_rootless(op)
            elif k == "mt_block":
                self.op_mt(op)
            elif k == "drop":
                self.op_drop(op)
            elif k == "mt_lib":
                self.op_mt_lib(op)
            self.resolved.append({**op, "id": self.cur_id, **self.cur_resolved})
            if self.pending is not None:
                raise self.pending
            if op.get("burst") and not op.get("burst_end"):
                continue  # inside a volume burst: judged at its end
            self.check_all()
            # calls that completed meanwhile are checked as soon as the history has them
            while checked < len(self.tasks) and self.tasks[checked]["res"] is not None:
                self.check_call(self.tasks[checked])
                self.tasks[checked]["checked"] = True
                checked += 1
        await self.drain()
        self.last_op = "execute" if self.calls else self.last_op
        if self.pending is not None:
            raise self.pending
        self.final_check = True
        self.check_all()

    async def drain(self):
        first = True
        while True:  # calls nested in executors join the list while we wait
            pend = [c["task"] for c in self.tasks if c["task"] is not None and not c["task"].done()]
            if not pend:
                break
            if first:
                self.stat("drains_with_pending")
                first = False
            await asyncio.wait(pend)
        for c in self.tasks:
            if not c.get("checked"):
                if c["res"] is None and c["task"] is not None and c["task"].done():
                    # task finished without running `one` at all: cancelled before first step
                    c["res"] = ("cancelled",)
                    self.stat("probe_cancelled_before_first_step")
                self.check_call(c)
                c["checked"] = True
        if self.orphans and "C12" in self.oracles:
            raise Violation("C12/route", {"what": "executor started for no known call",
                                          "title": self.orphans[0]["title"]})

    def run(self):
        viol = None
        try:
            self.setup()
            try:
                vloop.run(self.world, self.main())
            except Violation as v:
                viol = {"class": v.cls, "detail": v.detail}
            except (vloop.Deadlock, vloop.StepCap) as ex:
                if "C12" in self.oracles:
                    viol = {"class": "C12/liveness", "detail": {"what": repr(ex)}}
                else:
                    raise
        finally:
            self.teardown()
        return viol


def _safe_unparse(n):
    try:
        return ast.unparse(le.plain_copy(n))
    except Exception:
        return "<unprintable>"


def execute(case: dict) -> dict:
    f = Forest(case)
    viol = f.run()
    w = f.world
    ends = f.end_order
    if ends != sorted(ends):
        f.stat("probe_completion_order_differs_from_start_order")
    if w.threads:
        f.stat("sync_value_threads", w.threads)
    kinds = [o["op"] for o in case["ops"]]
    hist = hashlib.sha256("\n".join(f.events).encode()).hexdigest()[:16]
    if case["config"].get("big"):
        f.stat("big_runs")
    nontrivial = bool(
        f.stats.get("probe_completion_order_differs_from_start_order")
        or any(k.startswith("fault_") for k in f.stats)
        or f.stats.get("rebinds") or f.stats.get("probe_qmetadata_twice_in_a_row")
        or f.stats.get("derive_shared"))
    state_fp = sdig("\n".join(sorted(m.snap[0] for m in f.live)))
    if viol is not None:
        viol["detail"] = json.loads(_ADDR.sub("0x?", json.dumps(viol["detail"], default=repr)))
        viol["digest"] = sdig(viol["class"] + json.dumps(viol["detail"], sort_keys=True))
    extra = {}
    if case.get("want_resolved"):
        # the op being executed when a violation aborted the run is not in f.resolved yet
        n = len(f.resolved)
        rest = [{**o, "id": o.get("id", n + i)} for i, o in enumerate(case["ops"][n:])]
        if rest and f.cur_resolved:
            rest[0] = {**rest[0], **f.cur_resolved}
        extra["resolved_ops"] = f.resolved + rest
    return {
        **extra,
        "violation": viol,
        "stats": f.stats,
        "fingerprint": sdig(",".join(kinds) + w.trace_digest()),
        "state_fp": state_fp,
        "log_digest": hist + w.trace_digest(),
        "nontrivial": nontrivial,
        "sim_time": w.now,
        "steps": w.steps,
        "choice_points": w.choice_points,
        "n_ops": len(kinds),
        "prefix4": sdig(",".join(kinds[:4])),
    }


def op_simplifications(op):
    "Simpler variants of one op, for the argument-shrinking phase."
    out = []
    if op["op"] in ("spawn", "exec_sync"):
        p = op["plan"]
        if p[0] != "stall" and p[1] != 0.0:
            out.append({**op, "plan": [p[0], 0.0, p[2]]})
        if p[0] == "ok" and p[2] != "token":
            out.append({**op, "plan": [p[0], p[1], "token"]})
        if op.get("timeout") is not None:
            out.append({**op, "timeout": None})
        if op.get("override"):
            out.append({**op, "override": False})
        if op.get("via") == "sync":
            out.append({**op, "via": "async"})
    if op["op"] in ("md", "qmd") and len(op["md"]) > 1:
        for k in op["md"]:
            out.append({**op, "md": {k: op["md"][k]}})
    if op["op"] == "derive" and op["mode"] in ("ast", "shared"):
        out.append({**op, "mode": "str"})
    if op["op"] == "sleep" and op["dt"] != 0.0:
        out.append({**op, "dt": 0.0})
    if op.get("crash"):
        out.append({k: v for k, v in op.items() if k != "crash"})
    if op["op"] == "drop":
        if op.get("gc"):
            out.append({**op, "gc": False})
        if op.get("all"):
            out.append({**op, "all": False})
    if op.get("backend"):
        out.append({**op, "backend": False})
    return out


def remove_op(ops, i):
    "Delete op i; later references to the stream it created are re-pointed at its parent."
    gone = ops[i]
    pid = gone.get("parent")
    out = []
    for j, o in enumerate(ops):
        if j == i:
            continue
        if isinstance(pid, dict) and "id" in gone:
            for f in ("parent", "other", "stream"):
                r = o.get(f)
                if isinstance(r, dict) and r.get("ref") == gone["id"]:
                    o = {**o, f: pid}
        out.append(o)
    return out


def signature(case, viol) -> str:
    "Shape of a (minimised) failing case, for matching known findings."
    return viol["class"] + " :: " + ",".join(
        o["op"] + (":" + o["mode"] if o["op"] == "derive" else "")
        + (":empty" if o["op"] == "md" and not o["md"] else "") for o in case["ops"])


BUDGETS = {
    "C11": dict(quick_runs=10000, thorough_budget=900,
                technique="deterministic simulation: seeded derive/execute/fault histories over a stream forest, snapshot invariant after every step"),
    "C12": dict(quick_runs=12000, thorough_budget=900,
                technique="deterministic simulation: virtual-time asyncio loop with seeded schedules and executor faults, routing model over the recorded history, bounded liveness"),
    "C16": dict(quick_runs=6000, thorough_budget=900,
                technique="deterministic simulation: seeded QMetaData/derive/execute histories against a dict-per-stream reference model and a twin chain without QMetaData"),
    "C04": dict(quick_runs=12000, thorough_budget=900,
                technique="deterministic simulation: seeded rebinding/deletion/source-touch histories of client programs on a simulated source disk, Python's own lambda as reference"),
}
