"""Simulated `id()` for the library under test: object identity numbers with *forced re-use*.

CPython promises only that `id(x)` is unique among simultaneously existing objects; after an
object dies its number is free for the next one.  Whether that happens in a real process is a
lottery over the allocator's state - a source of nondeterminism that would make a failure
depend on heap layout and not replay.  The simulator owns it instead: inside the modules of the
package under test the name `id` resolves to an instance of `SimId` (a module global hides the
builtin; nothing outside the package is touched), which

  * gives every object a number that is stable while the object lives and never equal to the
    number of another live object (so every correct use of `id` keeps working), and
  * hands the number of a dead object to the next new object that asks, the dead number chosen
    by the run's PRNG - the legal behaviour least favourable to a memo keyed by `id()` whose
    entries outlive their keys.

Objects that cannot be weakly referenced (ints, tuples, cells, ...) keep their real `id`.
One seed = one exact sequence of numbers: replay is a pure function of the case.
"""
import sys
import weakref

_real_id = id


class SimId:
    def __init__(self, rng, prefix="func_adl"):
        self.rng = rng
        self.prefix = prefix
        self.live = {}  # real id -> simulated number, for objects that are alive
        self.pool = []  # numbers of dead objects
        self.next = 1 << 62
        self.asked = 0
        self.reused = 0
        self.installed = []

    def __call__(self, obj):
        rid = _real_id(obj)
        sid = self.live.get(rid)
        if sid is not None:
            return sid
        try:
            weakref.finalize(obj, self._release, rid)
        except TypeError:
            return rid
        self.asked += 1
        if self.pool:
            sid = self.pool.pop(self.rng.randrange(len(self.pool)))
            self.reused += 1
        else:
            sid = self.next
            self.next += 16
        self.live[rid] = sid
        return sid

    def _release(self, rid):
        sid = self.live.pop(rid, None)
        if sid is not None:
            self.pool.append(sid)

    def install(self):
        import importlib
        import pkgutil

        pkg = importlib.import_module(self.prefix)
        for info in pkgutil.walk_packages(pkg.__path__, self.prefix + "."):
            try:
                importlib.import_module(info.name)
            except Exception:
                pass
        for name, mod in list(sys.modules.items()):
            if mod is not None and (name == self.prefix or name.startswith(self.prefix + ".")):
                mod.__dict__["id"] = self
                self.installed.append(mod)

    def uninstall(self):
        for mod in self.installed:
            if mod.__dict__.get("id") is self:
                del mod.__dict__["id"]
        self.installed = []
