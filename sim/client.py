"""Client programs and the simulated source disk (DESIGN 2.4).

func_adl recovers a Python callable's lambda by re-reading its source file on every operator
call (inspect.findsource -> linecache).  The simulator owns that "disk": a client program is
rendered as text from the run's config, registered in `linecache.cache` under a synthetic path
with mtime None (the IPython convention), and exec-compiled with that filename.  A real-file
variant writes the same text under a scratch directory so that linecache's os.stat/read path
runs, and supports touch / rewrite-identical / append-after-last-site events.

Captured names live in four scope kinds: module globals (G*), class attributes (K0.A,
K0.In.B), attributes of an imported module object (simcfg.m) and closure cells (c0, c1 - one
pair per site factory, rebound together).

Every site has a twin `ref()` that returns the *Python* lambda with the same text in the same
scopes: Python's own evaluation of it, at the moment the site is invoked, is the reference for
what func_adl must have frozen into the query.
"""
import linecache
import os
import sys
import types

# "@c1" is a *module global* named c1: the closure cell c1 of every site factory hides it
GLOBALS = ["G0", "G1", "G2", "@c1", "max"]  # `max`: a global spelled like a builtin
CLASSATTRS = ["K0.A", "K0.In.B"]
MODATTRS = ["simcfg.m"]
CELLS = ["c0", "c1", "min"]  # `min`: a closure cell spelled like a builtin
ALL_NAMES = GLOBALS + CLASSATTRS + MODATTRS + CELLS

INITIAL = {
    "G0": ["int", 3],
    "G1": ["float", 2.5],
    "G2": ["str", "tagA"],
    "K0.A": ["int", 4],
    "K0.In.B": ["int", 7],
    "simcfg.m": ["int", 6],
    "c0": ["int", 9],
    "c1": ["int", 11],
    "min": ["int", 25],
    "max": ["float", 40.5],
    "@c1": ["int", 5151],
}


class Opaque:
    "A captured object that is neither callable nor transportable."

    def __repr__(self):
        return "Opaque()"


class _StrTag(str, __import__("enum").Enum):
    "Members are strings (the mix-in idiom for collection names); str() of one is NOT its value."
    A = "tagA"
    B = "tagB"
    X = "x"


class _Level(int, __import__("enum").Enum):
    "Members are ints; repr() of one is not a literal."
    L0 = 0
    L2 = 2
    L17 = 17


class _GeV(float):
    "A float subclass with a unit in its text."

    def __repr__(self):
        return f"{float(self)} GeV"

    __str__ = __repr__


def decode(v):
    "JSON-able value spec -> Python value."
    k = v[0]
    if k == "strenum":
        return _StrTag(v[1])
    if k == "intenum":
        return _Level(v[1])
    if k == "gev":
        return _GeV(v[1])
    if k in ("int", "float", "str", "bool"):
        return {"int": int, "float": float, "str": str, "bool": bool}[k](v[1])
    if k == "bytes":
        return v[1].encode("latin-1")
    if k == "list":
        return list(v[1])
    if k == "tuple":
        return tuple(v[1])
    if k == "dict":
        return dict(v[1])
    if k == "obj":
        return Opaque()
    if k == "none":
        return None
    raise ValueError(v)


def transportable(v) -> bool:
    return v[0] in ("int", "float", "str", "bool", "bytes", "none", "strenum", "intenum", "gev")


def is_none(v) -> bool:
    return v[0] == "none"


def _lit(v):
    return repr(decode(v)) if v[0] != "obj" else "None"


def render(sites, initial=INITIAL) -> str:
    """Source text of the client program.  One lambda per line, `def` header on its own line:
    layout robustness is C03's business, not the claimed properties'."""
    out = ["import simcfg\n",
           "class _Boom:\n",
           "    @property\n",
           "    def val(self):\n",
           "        raise RuntimeError('injected fault inside the capture step')\n",
           "BOOM = _Boom()\n",
           # a captured object whose property USES the library while it is being read (the
           # simulator decides what _reent_hook does; by default nothing)
           "_reent_hook = [None]\n",
           "class _Reent:\n",
           "    @property\n",
           "    def val(self):\n",
           "        if _reent_hook[0] is not None:\n",
           "            _reent_hook[0]()\n",
           "        return 5\n",
           "REENT = _Reent()\n"]
    for g in GLOBALS:
        out.append(f"{g.lstrip('@')} = {_lit(initial[g])}\n")
    out.append("class K0:\n")
    out.append(f"    A = {_lit(initial['K0.A'])}\n")
    out.append("    class In:\n")
    out.append(f"        B = {_lit(initial['K0.In.B'])}\n")
    for k, s in enumerate(sites):
        op, lam = s["op"], s["lam"]
        if s.get("supply"):
            # the callable is a one-line function definition instead of a lambda
            param, body = lam[len("lambda "):].split(": ", 1)
            doc = ['"what the cut is"\n'] if s["supply"] == "def_doc" else []
            if s.get("scope") == "module":
                out.append(f"def gfn_{k}({param}):\n")
                out.extend("    " + d for d in doc)
                out.append(f"    return {body}\n")
                out.append(f"def gsite_{k}(s):\n")
                out.append(f"    return s.{op}(gfn_{k})\n")
                out.append(f"def gref_{k}():\n")
                out.append(f"    return gfn_{k}\n")
                continue
            fn_site = [f"        def fn_{k}({param}):\n"] + ["            " + d for d in doc] + [
                f"            return {body}\n"]
        else:
            fn_site = None
        if s.get("scope") == "param" and not fn_site:
            # a helper function called again and again (`def make_query(ds, cut): return
            # ds.Where(lambda e: e.pt > cut)`): the captured names are its parameters, so every
            # call has fresh closure cells, which die when the call returns
            out.append(f"def psite_{k}(s, c0, c1, min):\n")
            out.append(f"    return s.{op}({lam})\n")
            out.append(f"def pref_{k}(c0, c1, min):\n")
            out.append(f"    return ({lam})\n")
            continue
        if s.get("scope") == "module":
            # a call site at module level: its free names are module globals (there, `c1` is
            # the module global that the closure cells of the other sites hide)
            out.append(f"def gsite_{k}(s):\n")
            out.append(f"    return s.{op}({lam})\n")
            out.append(f"def gref_{k}():\n")
            out.append(f"    return ({lam})\n")
            continue
        out.append(f"def make_site_{k}():\n")
        out.append(f"    c0 = {_lit(initial['c0'])}\n")
        out.append(f"    c1 = {_lit(initial['c1'])}\n")
        out.append(f"    min = {_lit(initial['min'])}\n")
        out.append("    def site(s):\n")
        if fn_site:
            out.extend(fn_site)
            out.append(f"        return s.{op}(fn_{k})\n")
            out.append("    def ref():\n")
            out.extend(fn_site)
            out.append(f"        return fn_{k}\n")
        else:
            out.append(f"        return s.{op}({lam})\n")
            out.append("    def ref():\n")
            out.append(f"        return ({lam})\n")
        out.append("    def rebind(n, v):\n")
        out.append("        nonlocal c0, c1, min\n")
        out.append("        if n == 'c0':\n")
        out.append("            c0 = v\n")
        out.append("        elif n == 'min':\n")
        out.append("            min = v\n")
        out.append("        else:\n")
        out.append("            c1 = v\n")
        out.append("    def unbind(n):\n")
        out.append("        nonlocal c0, c1, min\n")
        out.append("        if n == 'c0':\n")
        out.append("            del c0\n")
        out.append("        elif n == 'min':\n")
        out.append("            del min\n")
        out.append("        else:\n")
        out.append("            del c1\n")
        out.append("    return site, ref, rebind, unbind\n")
    return "".join(out)


class ClientProgram:
    def __init__(self, sites, run_tag, real_dir=None, initial=INITIAL):
        self.sites = sites
        self.src = render(sites, initial)
        self.real = real_dir is not None
        self.cfg = types.ModuleType("simcfg")
        self.cfg.m = decode(initial["simcfg.m"])
        sys.modules["simcfg"] = self.cfg
        if self.real:
            self.filename = os.path.join(real_dir, f"client_{run_tag}.py")
            with open(self.filename, "w") as f:
                f.write(self.src)
            linecache.cache.pop(self.filename, None)
        else:
            self.filename = f"<simdisk>/client_{run_tag}.py"
            linecache.cache[self.filename] = (
                len(self.src),
                None,
                self.src.splitlines(True),
                self.filename,
            )
        self.mod = types.ModuleType(f"client_{run_tag}")
        self.mod.__file__ = self.filename
        exec(compile(self.src, self.filename, "exec"), self.mod.__dict__)
        def _noop(n, v=None):
            return None

        def _param(k):
            ps, pr = getattr(self.mod, f"psite_{k}"), getattr(self.mod, f"pref_{k}")
            return (lambda s: ps(s, *self._cell_values()), lambda: pr(*self._cell_values()),
                    _noop, _noop)

        self.fns = [
            (getattr(self.mod, f"gsite_{k}"), getattr(self.mod, f"gref_{k}"), _noop, _noop)
            if s.get("scope") == "module"
            else _param(k) if s.get("scope") == "param" and not s.get("supply")
            else getattr(self.mod, f"make_site_{k}")()
            for k, s in enumerate(sites)]
        self.bound = {n: True for n in ALL_NAMES}
        self.value = {n: list(initial[n]) for n in ALL_NAMES}
        self.touches = 0
        self.cells_made = 0
        self.run_tag = run_tag

    def _cell_values(self):
        "Current values of the names that are parameters of a helper-function site."
        return [decode(self.value[n]) if self.bound[n] else None for n in ("c0", "c1", "min")]

    # -- short-lived code ("notebook cells") -------------------------------------------------
    def cell(self, k):
        """Site k re-typed in a fresh notebook cell: the same text compiled again under a new
        file name into the shared namespace.  Returns (site, ref, discard); after discard()
        nothing refers to the cell's code objects any more (they die, and their addresses are
        free for whatever is compiled next)."""
        s = self.sites[k]
        assert s.get("scope") == "module" and not s.get("supply")
        self.cells_made += 1
        name = f"<simdisk>/cell_{self.run_tag}_{self.cells_made}.py"
        src = (f"def _cell_site(s):\n    return s.{s['op']}({s['lam']})\n"
               f"def _cell_ref():\n    return ({s['lam']})\n")
        linecache.cache[name] = (len(src), None, src.splitlines(True), name)
        exec(compile(src, name, "exec"), self.mod.__dict__)
        site, ref = self.mod._cell_site, self.mod._cell_ref
        del self.mod._cell_site, self.mod._cell_ref

        def discard():
            linecache.cache.pop(name, None)

        return site, ref, discard

    # -- bindings -------------------------------------------------------------------------
    def _alt(self):
        "Alternate between the two ways of rebinding a dotted name (attribute / holder object)."
        self.rebinds = getattr(self, "rebinds", 0) + 1
        return self.rebinds % 2 == 1

    def rebind(self, name, v):
        val = decode(v)
        if name in GLOBALS:
            setattr(self.mod, name.lstrip("@"), val)
        elif name == "K0.A":
            self.mod.K0.A = val
        elif name == "K0.In.B":
            if self._alt():
                self.mod.K0.In = type("In", (), {"B": val})  # rebind the intermediate class
            else:
                self.mod.K0.In.B = val
        elif name == "simcfg.m":
            if self._alt():
                # rebind the module object itself (the name `simcfg` in the client's globals)
                self.cfg = types.ModuleType("simcfg")
                self.cfg.m = val
                self.mod.simcfg = self.cfg
                sys.modules["simcfg"] = self.cfg
            else:
                self.cfg.m = val
        else:
            for _, _, rb, _ in self.fns:
                rb(name, val)
        self.bound[name] = True
        self.value[name] = list(v)

    def unbind(self, name):
        if not self.bound[name]:
            return False
        if name in GLOBALS:
            delattr(self.mod, name.lstrip("@"))
        elif name == "K0.A":
            del self.mod.K0.A
        elif name == "K0.In.B":
            del self.mod.K0.In.B
        elif name == "simcfg.m":
            del self.cfg.m
        else:
            for _, _, _, ub in self.fns:
                ub(name)
        self.bound[name] = False
        return True

    def usable(self, k) -> bool:
        "A site is only invoked while every name it captures is bound (see DESIGN C04)."
        return all(self.bound[n] for n in self.sites[k]["free"])

    def none_bound(self, k):
        "Captured names of site k currently bound to None."
        return [n for n in self.sites[k]["free"] if is_none(self.value[n])]

    def blocked_by(self, k):
        "Captured names of site k whose current value is not transportable."
        return [n for n in self.sites[k]["free"] if not transportable(self.value[n])]

    # -- disk events (only ones that leave every byte up to the last site unchanged) ---------
    def touch(self, kind):
        self.touches += 1
        if not self.real:
            # simulated disk: drop and re-register the cache entry (what checkcache does when
            # a file's mtime changed and the content is re-read unchanged)
            ent = linecache.cache.pop(self.filename, None)
            if kind == "append":
                self.src += f"# appended {self.touches}\n"
            linecache.cache[self.filename] = (
                len(self.src),
                None,
                self.src.splitlines(True),
                self.filename,
            )
            return ent is not None
        if kind == "append":
            self.src += f"# appended {self.touches}\n"
        with open(self.filename, "w") as f:
            f.write(self.src)
        # push mtime forward so linecache.checkcache sees a change
        st = os.stat(self.filename)
        os.utime(self.filename, (st.st_atime + self.touches, st.st_mtime + self.touches))
        return True

    def close(self):
        linecache.cache.pop(self.filename, None)
        if self.real:
            try:
                os.unlink(self.filename)
            except OSError:
                pass
