"""Batch runner shared by all checks: seeded batches on a fork pool, determinism slice, regression
corpus, shrinking, replay files verified in a fresh interpreter, known findings, evidence.

Exit codes: 0 = held on everything explored (possibly with KNOWN-FINDING lines);
            1 = at least one `VIOLATION property=<id> replay=<path>` line;
            2 = harness error (time-out, non-reproducing violation, determinism failure).
"""
import argparse
import concurrent.futures as cf
import faulthandler
import glob
import json
import multiprocessing
import os
import re
import subprocess
import sys
import threading
import time

from . import shrink
from .core import ROOT, IsolationError, env_seed, func_adl_src, isolated, mix

WORKERS = int(os.environ.get("VERIF_WORKERS", "16"))
CHUNK_TIMEOUT = 900

_ENGINE = None

# ---- process-environment slices --------------------------------------------------------------
# Part of every batch runs in child interpreters started under another *process-level*
# configuration - one that cannot be changed inside a forked run: `python -O` (asserts and
# `__debug__` blocks are compiled away) and the environment switches the package itself reads
# (names found by scanning its source for os.environ / os.getenv look-ups; values from the seed).
# A finding made there carries `process_env` in its replay file, and `--replay` re-executes
# itself under that configuration.
PROCESS_ENV = json.loads(os.environ.get("VERIF_PROCESS_ENV", "null"))
_NOT_SWITCHES = {"HOME", "PATH", "USER", "TMPDIR", "TEMP", "TMP", "PWD", "SHELL", "LANG"}


def discover_switches(src):
    names = set()
    pat = re.compile(r"""(?:environ(?:\.get)?|getenv)\s*[\[(]\s*["']([A-Za-z_][A-Za-z0-9_]*)["']""")
    for f in glob.glob(os.path.join(src, "func_adl", "**", "*.py"), recursive=True):
        try:
            names.update(pat.findall(open(f, encoding="utf-8").read()))
        except OSError:
            pass
    return sorted(n for n in names if n not in _NOT_SWITCHES and not n.startswith(("PYTHON", "VERIF")))


def env_slices(seed0, prop):
    import random

    out = [{"label": "optimize", "flags": ["-O"], "env": {}}]
    sw = discover_switches(func_adl_src())
    if sw:
        rng = random.Random(mix(seed0, prop, "switches"))
        out.append({"label": "switches", "flags": [],
                    "env": {n: rng.choice(["1", "3", "64"]) for n in sw}})
    return out


def _process_matches(pe):
    if ("-O" in pe.get("flags", [])) != bool(sys.flags.optimize):
        return False
    return all(os.environ.get(k) == v for k, v in pe.get("env", {}).items())


def interpreter_flags():
    "Interpreter options children of this process must be started with, to be like it."
    return ["-O"] if sys.flags.optimize == 1 else []


def _init_worker(engine_name):
    global _ENGINE
    import importlib

    _ENGINE = importlib.import_module(engine_name)
    # every run is forked off this worker: keep the pages it shares with its children clean
    import gc

    gc.collect()
    gc.freeze()


def _run_one(engine, prop, seed, tier, fault_free):
    case = engine.generate(prop, seed, tier, fault_free=fault_free)
    try:
        r = isolated(engine.execute, case) if getattr(engine, "ISOLATE", True) else engine.execute(case)
    except (IsolationError, RuntimeError, OSError, subprocess.SubprocessError) as e:
        # the run died outside every oracle (an exception nobody expected, a hang): it proves
        # nothing either way.  It must not take the other runs of the batch with it: it is
        # counted, and a batch with dead runs and no violation is a harness error, never a pass
        r = {"violation": None, "stats": {"runs_died_outside_oracles": 1}, "nontrivial": False,
             "fingerprint": None, "log_digest": "died", "died": str(e)[-700:]}
    r["seed"] = seed
    r["fault_free"] = fault_free
    return r


def _run_chunk(prop, tier, seeds, fault_free, keep_samples):
    faulthandler.dump_traceback_later(CHUNK_TIMEOUT, exit=True)
    try:
        out = []
        for s in seeds:
            r = _run_one(_ENGINE, prop, s, tier, fault_free)
            if keep_samples and len(out) < 1:
                r["sample_case"] = _ENGINE.generate(prop, s, tier, fault_free=fault_free)
            out.append(r)
        return out
    finally:
        faulthandler.cancel_dump_traceback_later()


def _shrink_job(prop, tier, seed, fault_free, cls):
    faulthandler.dump_traceback_later(4 * CHUNK_TIMEOUT, exit=True)
    try:
        case = _ENGINE.generate(prop, seed, tier, fault_free=fault_free)
        small, sv, n_exec = shrink.minimise(_ENGINE, case, cls)
        return case, small, sv, n_exec
    finally:
        faulthandler.cancel_dump_traceback_later()


def _exec_job(case):
    faulthandler.dump_traceback_later(CHUNK_TIMEOUT, exit=True)
    try:
        return isolated(_ENGINE.execute, case)
    finally:
        faulthandler.cancel_dump_traceback_later()


def _digest_chunk(prop, tier, seeds):
    faulthandler.dump_traceback_later(CHUNK_TIMEOUT, exit=True)
    try:
        return {s: _run_one(_ENGINE, prop, s, tier, False)["log_digest"] for s in seeds}
    finally:
        faulthandler.cancel_dump_traceback_later()


class HarnessError(Exception):
    pass


def _watchdog(seconds):
    def fire():
        print(f"HARNESS-ERROR overall wall cap of {seconds}s exceeded", flush=True)
        os._exit(2)

    t = threading.Timer(seconds, fire)
    t.daemon = True
    t.start()
    return t


class Agg:
    def __init__(self):
        self.runs = 0
        self.stats = {}
        self.fps = set()
        self.state_fps = set()
        self.prefix4 = set()
        self.sim_time = 0.0
        self.steps = 0
        self.choice_points = 0
        self.violations = []  # (seed, fault_free, violation)
        self.samples = []
        self.ops = 0
        self.extra = {}
        self.died = []

    def add(self, r):
        self.runs += 1
        if r.get("died"):
            self.died.append((r["seed"], r["died"]))
        for k, v in r["stats"].items():
            self.stats[k] = self.stats.get(k, 0) + v
        if r.get("nontrivial"):
            self.fps.add(r["fingerprint"])
        self.state_fps.add(r.get("state_fp"))
        self.prefix4.add(r.get("prefix4"))
        self.sim_time += r.get("sim_time", 0.0)
        self.steps += r.get("steps", 0)
        self.choice_points += r.get("choice_points", 0)
        self.ops += r.get("n_ops", 0)
        if r["violation"] is not None:
            self.violations.append((r["seed"], r["fault_free"], r["violation"]))
        if "sample_case" in r and len(self.samples) < 3:
            self.samples.append(r["sample_case"])
        for k, v in (r.get("extra") or {}).items():
            self.extra[k] = self.extra.get(k, 0) + v


def load_known():
    path = os.path.join(ROOT, "known_findings.jsonl")
    out = []
    if os.path.exists(path):
        for line in open(path):
            line = line.strip()
            if line and not line.startswith("#"):
                out.append(json.loads(line))
    return out


def match_known(known, prop, viol, sig):
    for k in known:
        if k.get("status") != "open" or k.get("property") != prop:
            continue
        if k.get("class") and k["class"] != viol["class"]:
            continue
        if k.get("signature_regex") and not re.search(k["signature_regex"], sig):
            continue
        return k
    return None


def replay_file(engine, prop, path):
    "--replay: re-execute a recorded case; exit 1 with a VIOLATION line iff it still violates."
    case = json.load(open(path))
    pe = case.get("process_env")
    if pe and not _process_matches(pe):
        env = dict(os.environ, **pe.get("env", {}), VERIF_PROCESS_ENV=json.dumps(pe))
        os.execve(sys.executable, [sys.executable] + pe.get("flags", []) + [
            os.path.abspath(sys.argv[0])] + sys.argv[1:], env)
    r = engine.execute(case)
    v = r["violation"]
    rec = case.get("violation") or {}
    if v is None:
        print(f"REPLAY-CLEAN property={prop} file={path} (recorded: {rec.get('class')})")
        return 0
    same = v["class"] == rec.get("class") and v["digest"] == rec.get("digest")
    print(f"VIOLATION property={prop} replay={path} class={v['class']} digest={v['digest']} "
          f"same_as_recorded={same}")
    print(json.dumps(v["detail"], default=repr)[:1500])
    return 1


def main(prop, engine, argv, quick_runs=4000, thorough_budget=900, selftest_seeds=40,
         technique=""):
    ap = argparse.ArgumentParser()
    ap.add_argument("--tier", default=os.environ.get("VERIF_TIER", "quick"))
    ap.add_argument("--replay")
    ap.add_argument("--digests")
    ap.add_argument("--runs", type=int)
    ap.add_argument("--budget", type=float)
    ap.add_argument("--no-evidence", action="store_true")
    ap.add_argument("--slice")  # internal: this process is a process-environment slice
    ap.add_argument("--no-slices", action="store_true")
    a = ap.parse_args(argv)
    tier = a.tier if a.tier in ("quick", "thorough") else "quick"
    if a.replay:
        return replay_file(engine, prop, a.replay)
    if a.digests:  # used by the determinism self-test from another interpreter / hash seed
        if a.digests.startswith("n="):  # n=<count>: the first <count> self-test seeds, via the pool
            n = int(a.digests[2:])
            seeds = [mix(env_seed(), prop, "selftest-full", i) for i in range(n)]
            pool = _pool(engine)
            try:
                order = list(reversed(seeds)) if WORKERS % 2 else seeds
                k = max(1, n // (3 * WORKERS))
                futs = [pool.submit(_digest_chunk, prop, tier, order[i:i + k]) for i in range(0, n, k)]
                d = {}
                for x in _collect(futs, CHUNK_TIMEOUT + 30):
                    d.update(x)
            finally:
                pool.shutdown(wait=True, cancel_futures=True)
            print(json.dumps({str(s): d[s] for s in seeds}))
            return 0
        seeds = [int(x) for x in a.digests.split(",")]
        print(json.dumps({str(s): _run_one(engine, prop, s, tier, False)["log_digest"]
                          for s in seeds}))
        return 0
    t0 = time.time()
    seed0 = env_seed()
    budget = a.budget if a.budget is not None else float(
        os.environ.get("VERIF_BUDGET_S", thorough_budget if tier == "thorough" else 0) or 0)
    runs = a.runs if a.runs is not None else (quick_runs if tier == "quick" else 10 ** 9)
    wd = _watchdog((budget if tier == "thorough" else 600) + 1200)
    try:
        code = _main(prop, engine, tier, seed0, runs, budget, selftest_seeds, t0, a, technique)
    except HarnessError as e:
        print(f"HARNESS-ERROR {e}", flush=True)
        code = 2
    except Exception as e:  # never exit 1 without a VIOLATION line, never exit 0 by accident
        import traceback

        traceback.print_exc()
        print(f"HARNESS-ERROR unexpected {type(e).__name__}: {str(e)[-400:]}", flush=True)
        code = 2
    wd.cancel()
    return code


def _pool(engine):
    ctx = multiprocessing.get_context("fork")
    return cf.ProcessPoolExecutor(max_workers=WORKERS, mp_context=ctx,
                                  initializer=_init_worker, initargs=(engine.__name__,))


def _collect(futs, timeout):
    out = []
    for f in futs:
        try:
            out.append(f.result(timeout=timeout))
        except cf.TimeoutError:
            raise HarnessError("a worker chunk did not finish in time")
        except cf.process.BrokenProcessPool:
            raise HarnessError("a worker process died (hang watchdog or crash)")
    return out


def selftest(prop, engine, tier, seed0, n, pool):
    """Determinism slice: every seed runs twice in different worker processes and once more in a
    fresh interpreter under another PYTHONHASHSEED; the full event-log digests must agree."""
    seeds = [mix(seed0, prop, "selftest", i) for i in range(n)]
    half = max(1, n // 4)
    futs_a = [pool.submit(_digest_chunk, prop, tier, seeds[i:i + half]) for i in range(0, n, half)]
    rev = list(reversed(seeds))
    futs_b = [pool.submit(_digest_chunk, prop, tier, rev[i:i + 3]) for i in range(0, n, 3)]
    env = dict(os.environ)
    env["VERIF_HASHSEED"] = "4242"
    env["PYTHONHASHSEED"] = "4242"
    k = min(n, 12)
    script = os.path.join(ROOT, "checks", prop.lower() + ".py")
    p = subprocess.Popen([sys.executable, script, "--tier", tier, "--digests",
                          ",".join(map(str, seeds[:k]))], env=env, stdout=subprocess.PIPE,
                         stderr=subprocess.PIPE, text=True)
    da, db = {}, {}
    for d in _collect(futs_a, CHUNK_TIMEOUT + 30):
        da.update(d)
    for d in _collect(futs_b, CHUNK_TIMEOUT + 30):
        db.update(d)
    try:
        out, err = p.communicate(timeout=CHUNK_TIMEOUT)
    except subprocess.TimeoutExpired:
        p.kill()
        raise HarnessError("determinism self-test child timed out")
    if p.returncode != 0:
        raise HarnessError(f"determinism self-test child failed: {err[-500:]}")
    dc = {int(k2): v for k2, v in json.loads(out.strip().splitlines()[-1]).items()}
    bad = [s for s in seeds if da[s] != db[s]] + [s for s in dc if dc[s] != da[s]]
    return {"seeds": n, "twice_in_other_process": n, "other_hashseed_fresh_interpreter": len(dc),
            "mismatching_seeds": bad[:5]}


def _batch(prop, engine, tier, pool, seeds_iter, fault_free, agg, deadline, max_runs):
    "Keep 2*WORKERS chunks in flight until max_runs or the deadline."
    chunk = getattr(engine, "CHUNK", 25)
    pending = set()
    submitted = 0
    done_runs = 0
    first = True

    def submit():
        nonlocal submitted, first
        n = min(chunk, max_runs - submitted)
        if n <= 0:
            return False
        seeds = [next(seeds_iter) for _ in range(n)]
        pending.add(pool.submit(_run_chunk, prop, tier, seeds, fault_free, first or submitted % 1000 == 0))
        first = False
        submitted += n
        return True

    while len(pending) < 2 * WORKERS and submit():
        pass
    while pending:
        done, _ = cf.wait(pending, timeout=CHUNK_TIMEOUT + 30, return_when=cf.FIRST_COMPLETED)
        if not done:
            raise HarnessError("no worker chunk finished in time")
        for f in done:
            pending.discard(f)
            try:
                for r in f.result():
                    agg.add(r)
                    done_runs += 1
            except cf.process.BrokenProcessPool:
                raise HarnessError("a worker process died (hang watchdog or crash)")
            if (deadline is None or time.time() < deadline) and len(agg.violations) < 200:
                submit()
    return done_runs


def _seed_stream(seed0, prop, label):
    i = 0
    while True:
        yield mix(seed0, prop, label, i)
        i += 1


def _main(prop, engine, tier, seed0, runs, budget, selftest_seeds, t0, a, technique):
    known = load_known()
    pool = _pool(engine)
    notes = []
    in_slice = a.slice is not None
    try:
        if in_slice:
            # a process-environment slice: only the fault-injecting search, under this
            # interpreter's configuration; determinism protocol and corpus are the parent's job
            st = {"seeds": 0, "twice_in_other_process": 0, "other_hashseed_fresh_interpreter": 0,
                  "mismatching_seeds": []}
            corpus, regress = [], []
            agg_ff, agg_fi = Agg(), Agg()
            dl = (t0 + budget) if (tier == "thorough" and budget) else None
            _batch(prop, engine, tier, pool, _seed_stream(seed0, prop, "slice-" + a.slice), False,
                   agg_fi, dl, runs)
        else:
            st = selftest(prop, engine, tier, seed0, selftest_seeds if tier == "quick" else 200, pool)
            # regression corpus: replay files of repaired defects must stay clean
            corpus = sorted(glob.glob(os.path.join(ROOT, "replays", "fixed", prop, "*.json")))
            regress = []
            for path in corpus:
                case = json.load(open(path))
                r = pool.submit(_exec_job, case).result(timeout=CHUNK_TIMEOUT + 30)
                if r["violation"] is not None:
                    regress.append((path, r["violation"]))
            agg_ff, agg_fi = Agg(), Agg()
            if tier == "quick":
                n_ff = int(runs * 0.3)
                _batch(prop, engine, tier, pool, _seed_stream(seed0, prop, "ff"), True, agg_ff, None, n_ff)
                _batch(prop, engine, tier, pool, _seed_stream(seed0, prop, "fi"), False, agg_fi, None, runs - n_ff)
            else:
                d1 = time.time() + budget * 0.25
                _batch(prop, engine, tier, pool, _seed_stream(seed0, prop, "ff"), True, agg_ff, d1, runs)
                d2 = t0 + budget * 0.8
                _batch(prop, engine, tier, pool, _seed_stream(seed0, prop, "fi"), False, agg_fi, d2, runs)
        wall_search = time.time() - t0

        # ---- findings ------------------------------------------------------------------------
        found = []
        by_class = {}
        for seed, ff, v in agg_ff.violations + agg_fi.violations:
            by_class.setdefault(shrink.family(v["class"]), []).append((seed, ff, v))
        exit_code = 0
        out_dir = os.path.join(ROOT, "replays", prop)
        jobs = {}
        for cls, lst in sorted(by_class.items()):
            lst.sort(key=lambda t: t[0])
            seed, ff, v = lst[0]
            jobs[cls] = pool.submit(_shrink_job, prop, tier, seed, ff, v["class"])
        shrunk = {}
        unrepro = []
        for cls, fut in jobs.items():
            try:
                shrunk[cls] = fut.result(timeout=4 * CHUNK_TIMEOUT + 60)
            except cf.TimeoutError:
                raise HarnessError(f"shrinking {cls} did not finish in time")
            except cf.process.BrokenProcessPool:
                raise HarnessError("a worker process died while shrinking")
            except Exception as e:
                # this class did not reproduce (code under test that is itself nondeterministic,
                # e.g. real threads the simulator does not own): the other classes still stand
                unrepro.append((cls, repr(e)[:300]))
    finally:
        pool.shutdown(wait=True, cancel_futures=True)
    for cls, why in unrepro:
        print(f"  note: {cls} ({len(by_class[cls])} runs) did not reproduce when re-executed: {why}")
    if unrepro and not shrunk:
        raise HarnessError(f"no violation class reproduced: {unrepro[0][0]}: {unrepro[0][1]}")
    for cls, lst in sorted(by_class.items()):
        if cls not in shrunk:
            continue
        seed, ff, v = lst[0]
        sub = sorted({x[2]["class"] for x in lst})
        case, small, sv, n_exec = shrunk[cls]
        sig = engine.signature(small, sv)
        small["violation"] = sv
        small["signature"] = sig
        small["minimised_from_ops"] = len(case["ops"])
        small["shrink_executions"] = n_exec
        if PROCESS_ENV:
            small["process_env"] = PROCESS_ENV
        os.makedirs(out_dir, exist_ok=True)
        path = os.path.join(out_dir, f"{cls.replace('/', '_')}-{seed}"
                            + (f"-{a.slice}" if in_slice else "") + ".json")
        with open(path, "w") as f:
            json.dump(small, f, indent=1, default=repr)
        # replay in a fresh interpreter: must fail the same way
        script = os.path.join(ROOT, "checks", prop.lower() + ".py")
        p = subprocess.run([sys.executable] + interpreter_flags() + [script, "--replay", path],
                           capture_output=True, text=True, timeout=CHUNK_TIMEOUT)
        exact = p.returncode == 1 and f"class={sv['class']} digest={sv['digest']} same_as_recorded=True" in p.stdout
        m = re.search(r"^VIOLATION property=\S+ replay=\S+ class=(\S+)", p.stdout, re.M)
        same_family = p.returncode == 1 and m is not None and shrink.family(m.group(1)) == cls
        if not same_family:
            print(p.stdout[-800:], p.stderr[-800:])
            print(f"UNREPRODUCED-VIOLATION property={prop} class={cls} seed={seed} file={path}")
            unrepro.append((cls, f"did not reproduce from {path} in a fresh interpreter"))
            continue
        if not exact:
            # the code under test is itself nondeterministic (e.g. salted with a real clock or an
            # object address): the family reproduces, the details do not
            print(f"  note: replay of {path} reproduces {cls} but not bit-exactly")
        k = match_known(known, prop, sv, sig)
        if k is not None:
            print(f"KNOWN-FINDING: property={prop} {k.get('what', cls)} (class={cls}, {len(lst)} runs)")
            found.append({"class": cls, "runs": len(lst), "known": True, "replay": path})
            continue
        print(f"VIOLATION property={prop} replay={path}")
        print(f"  class={sv['class']} (seen as {sub}) runs={len(lst)} first_seed={seed} ops={len(small['ops'])} "
              f"(from {len(case['ops'])}) signature={sig}")
        print("  detail=" + json.dumps(sv["detail"], default=repr)[:1200])
        found.append({"class": cls, "runs": len(lst), "known": False, "replay": path})
        exit_code = 1
    if unrepro and exit_code == 0 and not any(f.get("known") for f in found):
        # something was seen, nothing of it could be reproduced: neither a pass nor a finding
        print(f"HARNESS-ERROR violations that did not reproduce: {[c for c, _ in unrepro]}")
        exit_code = 2
    for path, v in regress:
        print(f"VIOLATION property={prop} replay={path}")
        print(f"  regression of a repaired defect: class={v['class']}")
        found.append({"class": v["class"], "runs": 1, "known": False, "replay": path,
                      "regression": True})
        exit_code = 1

    # ---- process-environment slices -------------------------------------------------------------
    slices = {}
    if not in_slice and not a.no_slices and not os.environ.get("VERIF_NO_SLICES"):
        script = os.path.join(ROOT, "checks", prop.lower() + ".py")
        for sl in env_slices(seed0, prop):
            n = max(getattr(engine, "SLICE_MIN_RUNS", 200), runs // 8) if tier == "quick" else 10 ** 9
            cmd = [sys.executable] + sl["flags"] + [script, "--tier", tier, "--slice", sl["label"],
                                                   "--runs", str(n), "--no-evidence"]
            if tier == "thorough":
                cmd += ["--budget", str(max(30.0, budget * 0.08))]
            env = dict(os.environ, **sl["env"], VERIF_PROCESS_ENV=json.dumps(sl))
            try:
                p = subprocess.run(cmd, env=env, capture_output=True, text=True,
                                   timeout=(budget if tier == "thorough" else 0) + 1500)
            except subprocess.TimeoutExpired:
                print(f"HARNESS-ERROR process-environment slice {sl['label']} timed out")
                exit_code = exit_code or 2
                continue
            lines = p.stdout.splitlines()
            for i, line in enumerate(lines):
                if line.startswith("VIOLATION") or line.startswith("KNOWN-FINDING"):
                    print(line + (f"  [process environment: {sl['label']}]" if line.startswith("VIOLATION") else ""))
                    for extra_line in lines[i + 1:i + 3]:
                        if extra_line.startswith("  "):
                            print(extra_line)
                    if line.startswith("VIOLATION"):
                        m = re.search(r"replay=(\S+)", line)
                        found.append({"class": "see replay", "runs": None, "known": False,
                                      "replay": m.group(1) if m else None,
                                      "process_env": sl["label"]})
                if line.startswith("SLICE-STATS "):
                    slices[sl["label"]] = json.loads(line[len("SLICE-STATS "):])
                    slices[sl["label"]]["configuration"] = {"flags": sl["flags"], "env": sl["env"]}
            if p.returncode == 1 and any(l.startswith("VIOLATION") for l in lines):
                exit_code = 1
            elif p.returncode != 0:
                print(f"HARNESS-ERROR process-environment slice {sl['label']} exited {p.returncode}: "
                      f"{(p.stdout + p.stderr)[-600:]}")
                exit_code = exit_code or 2

    # ---- evidence -----------------------------------------------------------------------------
    wall = time.time() - t0
    total = agg_ff.runs + agg_fi.runs
    stats = dict(agg_ff.stats)
    for k, v in agg_fi.stats.items():
        stats[k] = stats.get(k, 0) + v
    faults = {k: v for k, v in sorted(stats.items()) if k.startswith("fault_")}
    probes = {k: v for k, v in sorted(stats.items()) if k.startswith("probe_")}
    fps = agg_ff.fps | agg_fi.fps
    samples = (agg_fi.samples[:2] + agg_ff.samples[:1]) or [{}]
    ev = {
        "property_id": prop,
        "tier": tier,
        "seed": seed0,
        "level": "exploration",
        "coverage": {
            "evaluations": total,
            "distinct_nontrivial": len(fps),
            "rule": engine.RULE,
            "samples": [{"config": s.get("config"), "ops": (s.get("ops") or [])[:40],
                         "ops_total": len(s.get("ops") or []),
                         "sched_seed": s.get("sched_seed")} for s in samples],
            "technique": technique,
            "fault_free_runs": agg_ff.runs,
            "fault_injecting_runs": agg_fi.runs,
            "ops_executed": agg_ff.ops + agg_fi.ops,
            "loop_steps": agg_ff.steps + agg_fi.steps,
            "schedule_choice_points": agg_ff.choice_points + agg_fi.choice_points,
            "simulated_seconds": round(agg_ff.sim_time + agg_fi.sim_time, 3),
            "faults_fired": faults,
            "probes": probes,
            "counters": {k: v for k, v in sorted(stats.items())
                         if not k.startswith(("fault_", "probe_"))},
            "distinct_state_fingerprints": len(agg_ff.state_fps | agg_fi.state_fps),
            "distinct_4op_prefixes": len(agg_ff.prefix4 | agg_fi.prefix4),
            "runs_per_hour": int(total / max(wall_search, 1e-9) * 3600),
            "seeds_per_hour": int(total / max(wall_search, 1e-9) * 3600),
            "determinism_selftest": st,
            "regression_corpus_replayed": len(corpus),
            "components_real": engine.COMPONENTS_REAL,
            "components_stub": engine.COMPONENTS_STUB,
            "findings": found,
            "process_environment_slices": slices,
            "tree": func_adl_src(),
            "extra": {**agg_ff.extra, **{k: agg_ff.extra.get(k, 0) + v for k, v in agg_fi.extra.items()}},
        },
        "assumptions": engine.ASSUMPTIONS,
        "wall_s": round(wall, 2),
        "violations": sum(1 for f in found if not f["known"]),
    }
    if st.get("mismatching_seeds"):
        # the same seed gave different event logs.  If the search also found a violation the code
        # under test is itself nondeterministic (salted with an address, a clock, a hash seed) and
        # the violation stands; otherwise the harness cannot be trusted.
        if exit_code == 1:
            print(f"  note: determinism self-test failed for seeds {st['mismatching_seeds']} - "
                  "the code under test behaves differently from run to run")
        else:
            print(f"HARNESS-ERROR nondeterministic runs for seeds {st['mismatching_seeds']}")
            exit_code = 2
    died = agg_ff.died + agg_fi.died
    if died:
        if exit_code == 1:
            print(f"  note: {len(died)} run(s) died outside every oracle (first: seed {died[0][0]})")
        else:
            print(f"HARNESS-ERROR {len(died)} run(s) died outside every oracle; first: seed "
                  f"{died[0][0]}: ...{died[0][1][-400:]}")
            exit_code = 2
    stuck = [p for p in engine.REQUIRED_PROBES.get(prop, []) if not stats.get(p)]
    if stuck and total >= 1000 and not in_slice:
        print(f"HARNESS-ERROR probes stuck at zero: {stuck}")
        exit_code = exit_code or 2
    if in_slice:
        print("SLICE-STATS " + json.dumps({
            "runs": total, "distinct_nontrivial": len(fps), "faults_fired": faults,
            "ops_executed": agg_fi.ops, "wall_s": round(wall, 1),
            "violations": ev["violations"], "runs_died": len(agg_fi.died)}))
    if not a.no_evidence and not in_slice and func_adl_src() == "/repo":
        os.makedirs(os.path.join(ROOT, "evidence"), exist_ok=True)
        with open(os.path.join(ROOT, "evidence", f"{prop}.json"), "w") as f:
            json.dump(ev, f, indent=1, default=repr)
        if tier == "thorough":  # kept next to the every-change evidence, which quick runs rewrite
            with open(os.path.join(ROOT, "evidence", f"{prop}.thorough.json"), "w") as f:
                json.dump(ev, f, indent=1, default=repr)
    print(f"{prop} {tier}: runs={total} (fault-free {agg_ff.runs}, fault-injecting {agg_fi.runs}) "
          f"distinct_nontrivial={len(fps)} violations={ev['violations']} "
          f"known={sum(1 for f in found if f['known'])} wall={wall:.1f}s "
          f"({int(total / max(wall_search, 1e-9))} runs/s)")
    return exit_code
