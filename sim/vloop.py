"""Virtual-time, seeded-schedule asyncio event loop and the make_sync thread seam.

`SimLoop` subclasses the real `asyncio.BaseEventLoop` (CPython 3.12 private members `_ready`,
`_scheduled`, `_run_once`): real Tasks, Futures, `sleep`, `wait_for`/`timeout` run on it, but

  * `time()` reads a shared `Clock`; when nothing is ready the clock jumps to the next timer;
  * each iteration runs exactly ONE ready handle, picked by the schedule PRNG (not FIFO);
  * "nothing ready, no timer" with the loop still asked to run raises `Deadlock` - never a hang;
  * a step cap bounds runaway runs.

`install(world)` routes `asyncio.new_event_loop()` (used by make_it_sync's worker thread) to a
`SimLoop` on the same clock / PRNG, and replaces make_it_sync's ThreadPoolExecutor with one that
starts a real thread and joins it immediately, so only one thread is ever runnable and the OS
makes no scheduling decision.  The real `make_sync` logic runs unmodified.
"""
import asyncio
import contextvars
import hashlib
import heapq
import inspect
import sys
import threading

from .core import frame_depth


class Deadlock(Exception):
    "Raised by the simulator when a loop has pending work but nothing can ever run."


class StepCap(Exception):
    "Raised when a run exceeds its loop-step budget."


class World:
    "Everything a run's loops share: virtual clock, schedule PRNG, trace digest, counters."

    def __init__(self, sched_rng, step_cap=20000):
        self.now = 0.0
        self.rng = sched_rng
        self.step_cap = step_cap
        self.steps = 0
        self.choice_points = 0  # steps where more than one handle was ready
        self.clock_jumps = 0
        self.loops = 0
        self.threads = 0
        self._trace = hashlib.sha1()
        self.trace_head = []  # first few picks, for samples
        self.mt = None  # MTSched while a multi-thread block is active
        self.thread_choice_points = 0
        self.thread_switches = 0
        self.abandoned = []  # worker threads whose caller was interrupted while waiting

    def note(self, i, n):
        self._trace.update(b"%.6f,%d,%d;" % (self.now, i, n))
        if len(self.trace_head) < 24:
            self.trace_head.append((round(self.now, 6), i, n))

    def trace_digest(self):
        return self._trace.hexdigest()[:16]


class SimLoop(asyncio.BaseEventLoop):
    def __init__(self, world: World):
        super().__init__()
        self._w = world
        world.loops += 1
        # per-run configuration of the asyncio machinery (legal settings an application may use)
        env = getattr(world, "env", None) or {}
        if env.get("asyncio_debug"):
            self.set_debug(True)
        if env.get("eager_tasks"):
            self.set_task_factory(asyncio.eager_task_factory)

    def time(self):
        return self._w.now

    def _process_events(self, event_list):
        pass

    def _write_to_self(self):
        pass

    def _run_once(self):
        w = self._w
        sched = self._scheduled
        while sched and sched[0]._cancelled:
            h = heapq.heappop(sched)
            h._scheduled = False
        if w.mt is not None:
            # several simulated threads: give the baton back to the world scheduler; when it
            # returns this loop has something ready, or the clock has reached its next timer
            w.mt.yield_point(self)
        if not self._ready and sched:
            when = sched[0]._when
            if when > w.now:
                w.now = when
                w.clock_jumps += 1
        end = w.now + self._clock_resolution
        while sched and sched[0]._when < end:
            h = heapq.heappop(sched)
            h._scheduled = False
            if not h._cancelled:
                self._ready.append(h)
        ready = self._ready
        n = len(ready)
        if n == 0:
            if not sched:
                raise Deadlock("nothing runnable")
            return
        if n == 1:
            i = 0
            h = ready.popleft()
        else:
            i = w.rng.randrange(n)
            ready.rotate(-i)
            h = ready.popleft()
            ready.rotate(i)
            w.choice_points += 1
        w.steps += 1
        if w.steps > w.step_cap:
            raise StepCap(f"more than {w.step_cap} loop steps")
        if not h._cancelled:
            w.note(i, n)
            h._run()
        h = None


class SimPolicy(asyncio.DefaultEventLoopPolicy):
    "new_event_loop() gives a SimLoop on the current world."

    world = None

    def new_event_loop(self):
        assert SimPolicy.world is not None, "no simulated world installed"
        return SimLoop(SimPolicy.world)


class _SimFuture:
    def __init__(self):
        self._r = None
        self._e = None

    def result(self, timeout=None):
        if self._e is not None:
            raise self._e
        return self._r


CURRENT_JOB = contextvars.ContextVar("sim_pool_job", default=None)


def can_interrupt_waiting_caller():
    job = CURRENT_JOB.get()
    return job is not None and not job["interrupted"]


def interrupt_waiting_caller():
    """Called on a worker thread of the simulated pool: wake the caller that waits for this
    worker as if it had been interrupted.  Returns False when there is no such caller."""
    job = CURRENT_JOB.get()
    if job is None or job["interrupted"]:
        return False
    job["interrupted"] = True
    job["done"].release()
    return True


class SimThreadPool:
    """Stands in for concurrent.futures.ThreadPoolExecutor inside make_it_sync: runs the job on
    a real thread, but the submitting thread waits for it at once (baton passing)."""

    def __init__(self, max_workers=1):
        pass

    def submit(self, fn, *a, **k):
        f = _SimFuture()
        if SimPolicy.world is not None:
            SimPolicy.world.threads += 1
            if SimPolicy.world.mt is not None:
                return SimPolicy.world.mt.submit_worker(f, fn, a, k)

        w = SimPolicy.world
        # resource fault: only `small_stack` more frames for whatever runs on the worker thread.
        # The recursion limit is interpreter-wide, so the caller must not execute a single
        # Python-level call while it is lowered: it parks itself in two C-level lock operations
        # (go.release(); done.acquire()) issued from this very frame.
        extra = getattr(w, "small_stack", None)
        # fault "crash point": an asynchronous exception at the k-th library line executed on
        # the worker thread (the tracer is per thread, so it is armed here)
        crash = getattr(w, "crash", None)
        go, done = threading.Lock(), threading.Lock()
        go.acquire()
        done.acquire()

        # fault "caller interrupted while waiting": code running on the worker (a fake executor)
        # may wake the caller early through this record; the caller then leaves with
        # KeyboardInterrupt - as if SIGINT had reached it inside future.result() - and the
        # worker goes on with nobody waiting for its answer
        job = {"done": done, "interrupted": False}

        def run():
            go.acquire()
            normal = sys.getrecursionlimit()
            if extra:
                sys.setrecursionlimit(frame_depth(sys._getframe()) + extra)
            if crash is not None:
                sys.settrace(crash.tracer)
            try:
                f._r = fn(*a, **k)
            except BaseException as e:  # delivered to the caller by result()
                f._e = e
            finally:
                if crash is not None:
                    sys.settrace(None)
                if extra:
                    sys.setrecursionlimit(normal)
                if not job["interrupted"]:
                    done.release()

        # the worker inherits the caller's contextvars (the real pool does not; func_adl uses
        # none): this is how the simulator attributes an executor start to the call behind it
        ctx = contextvars.copy_context()
        ctx.run(CURRENT_JOB.set, job)
        t = threading.Thread(target=ctx.run, args=(run,), name="sim-make-sync")
        t.start()
        go.release(); done.acquire()  # noqa: E702  (no Python frame is pushed in between)
        if job["interrupted"]:
            # the simulator joins the worker once the caller has left value()
            w.abandoned.append(t)
            raise KeyboardInterrupt()
        t.join()
        return f


def _under_logging(frame):
    "Inside a logging handler the thread holds that handler's (real) lock: no pre-emption."
    f, n = frame, 0
    while f is not None and n < 60:
        fn = f.f_code.co_filename
        if fn.endswith("logging/__init__.py") or fn.endswith("logging/handlers.py"):
            return True
        f, n = f.f_back, n + 1
    return False


class _SimThread:
    def __init__(self, name, fn):
        self.name = name
        self.fn = fn
        self.state = "runnable"  # runnable | sleeping | waiting | done
        self.until = 0.0
        self.waiting_on = None
        self.event = threading.Event()
        self.exc = None
        self.thread = None


class MTSched:
    """Baton-passing scheduler for several simulated threads on one virtual clock (stage 2).

    Real threads, but exactly one holds the baton; the others are parked on their Event.  A
    thread gives the baton back at every step of its event loop and between its operations;
    the next holder is drawn by the schedule PRNG among the runnable ones.  A thread whose loop
    has only timers sleeps until its next timer; the clock advances to the earliest such timer
    only when no thread is runnable.  A caller of make_sync's pool waits for its worker."""

    def __init__(self, world, preempt_p=0.0, prefix=None):
        self.w = world
        self.threads = []
        self.current = None
        self.main = threading.Event()
        self.failed = None
        # line-level pre-emption inside the library (see sim/preempt.py): with probability
        # preempt_p every source line of the package is a point where the baton may move
        self.preempt_p = preempt_p
        self.prefix = prefix
        self.line_switches = 0

    def _tracer(self, frame, event, arg):
        if frame.f_code.co_filename.startswith(self.prefix) and frame.f_code.co_name != "<module>":
            return self._local
        return None

    def _local(self, frame, event, arg):
        if event == "line" and self.line_switches < 2000 and self.w.rng.random() < self.preempt_p:
            me = self.current
            if me is not None and me.thread is threading.current_thread() and me.state == "runnable" \
                    and sum(1 for x in self.threads if x.state == "runnable") > 1 \
                    and not _under_logging(frame):
                self.line_switches += 1
                self.yield_point(None)
        return self._local

    def spawn(self, name, fn):
        t = _SimThread(name, fn)
        self.threads.append(t)
        t.thread = threading.Thread(target=self._boot, args=(t,), name="sim-" + name)
        t.thread.start()
        return t

    def _boot(self, t):
        if not t.event.wait(100):
            return
        t.event.clear()
        if self.preempt_p and self.prefix:
            sys.settrace(self._tracer)
        try:
            t.fn()
        except BaseException as e:
            t.exc = e
        finally:
            if self.preempt_p and self.prefix:
                sys.settrace(None)
        t.state = "done"
        for x in self.threads:
            if x.waiting_on is t:
                x.waiting_on = None
                x.state = "runnable"
        self._handoff()

    def _pick(self):
        run = [x for x in self.threads if x.state == "runnable"]
        if not run:
            sl = [x for x in self.threads if x.state == "sleeping"]
            if not sl:
                return None
            tmin = min(x.until for x in sl)
            if tmin > self.w.now:
                self.w.now = tmin
                self.w.clock_jumps += 1
            run = [x for x in sl if x.until <= tmin]
            for x in run:
                x.state = "runnable"
        if len(run) == 1:
            return run[0]
        self.w.thread_choice_points += 1
        return run[self.w.rng.randrange(len(run))]

    def _handoff(self):
        "The current thread cannot continue (finished): pass the baton on, or wake the coordinator."
        nxt = self._pick()
        if nxt is None:
            if any(x.state != "done" for x in self.threads):
                self.failed = Deadlock("threads are waiting but none can run")
            self.main.set()
            return
        self.current = nxt
        nxt.event.set()

    def _switch(self, me, nxt):
        if nxt is me:
            return
        self.w.thread_switches += 1
        self.current = nxt
        nxt.event.set()
        if not me.event.wait(100):
            raise Deadlock("baton never came back")
        me.event.clear()

    def yield_point(self, loop=None):
        me = self.current
        if loop is not None:
            if loop._ready:
                me.state = "runnable"
            elif loop._scheduled:
                me.state = "sleeping"
                me.until = loop._scheduled[0]._when
            else:
                raise Deadlock("nothing runnable")
        else:
            me.state = "runnable"
        nxt = self._pick()
        if nxt is None:
            raise Deadlock("no thread can run")
        self._switch(me, nxt)

    def submit_worker(self, f, fn, a, k):
        me = self.current

        ctx = contextvars.copy_context()

        def job():
            try:
                f._r = ctx.run(fn, *a, **k)
            except BaseException as e:
                f._e = e

        t = self.spawn("worker", job)
        me.state = "waiting"
        me.waiting_on = t
        nxt = self._pick()
        self._switch(me, nxt)
        return f


class _SpinLock:
    """A module-level lock of the package while simulated threads are pre-empted between the
    library's lines: a thread that finds it taken hands the baton on until the holder (which the
    simulator may have parked in the middle of its critical section) has released it."""

    def __init__(self, mt, real, reentrant):
        self.mt, self.real, self.reentrant = mt, real, reentrant
        self.owner = None
        self.depth = 0

    def _sim(self):
        cur = self.mt.current
        return cur is not None and cur.thread is threading.current_thread()

    def acquire(self, blocking=True, timeout=-1):
        if not self._sim():
            return self.real.acquire(blocking, timeout)
        me = threading.current_thread()
        spins = 0
        while self.owner is not None and not (self.reentrant and self.owner is me):
            if not blocking:
                return False
            spins += 1
            if spins > 100000:
                raise Deadlock("a simulated thread waits for a lock that is never released")
            self.mt.yield_point(None)
        self.owner = me
        self.depth += 1
        return True

    def release(self):
        if not self._sim() and self.owner is None:
            return self.real.release()
        self.depth -= 1
        if self.depth <= 0:
            self.owner = None
            self.depth = 0

    def locked(self):
        return self.owner is not None

    __enter__ = acquire

    def __exit__(self, *a):
        self.release()
        return False


def _own_package_locks(mt, package="func_adl"):
    lock_t, rlock_t = type(threading.Lock()), type(threading.RLock())
    saved = []
    for name, mod in list(sys.modules.items()):
        if mod is None or not (name == package or name.startswith(package + ".")):
            continue
        for attr, val in list(vars(mod).items()):
            if isinstance(val, (lock_t, rlock_t)):
                setattr(mod, attr, _SpinLock(mt, val, isinstance(val, rlock_t)))
                saved.append((mod, attr, val))
    return saved


def run_threads(world: World, fns, preempt_p=0.0, prefix=None):
    """Run the callables as simulated threads to completion under the world's scheduler.  The
    calling (coordinator) thread is blocked meanwhile."""
    mt = MTSched(world, preempt_p, prefix)
    world.last_mt = mt
    saved_locks = _own_package_locks(mt) if preempt_p else []
    try:
        return _run_threads(world, mt, fns)
    finally:
        for mod, attr, val in saved_locks:
            setattr(mod, attr, val)


def _run_threads(world, mt, fns):
    world.mt = mt
    try:
        ts = [mt.spawn(f"user{i}", fn) for i, fn in enumerate(fns)]
        first = mt._pick()
        mt.current = first
        first.event.set()
        if not mt.main.wait(200):
            raise Deadlock("multi-thread block did not finish")
        for t in mt.threads:
            t.thread.join(5)
        if mt.failed is not None:
            raise mt.failed
        for t in ts:
            if t.exc is not None:
                raise t.exc
    finally:
        world.mt = None


_installed = False


def install(world: World):
    "Install policy + thread seam (idempotent) and make `world` the current one."
    global _installed
    SimPolicy.world = world
    if not _installed:
        import make_it_sync.func_wrapper as fw

        fw.ThreadPoolExecutor = SimThreadPool
        asyncio.set_event_loop_policy(SimPolicy())
        _installed = True


def run(world: World, coro):
    "Run `coro` to completion on a fresh outer SimLoop of `world`."
    install(world)
    loop = SimLoop(world)
    try:
        return loop.run_until_complete(coro)
    finally:
        try:
            loop.close()
        except Exception:
            pass
