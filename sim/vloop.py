"""Virtual-time, seeded-schedule asyncio event loop and the make_sync thread seam.

`SimLoop` subclasses the real `asyncio.BaseEventLoop` (CPython 3.12 private members `_ready`,
`_scheduled`, `_run_once`): real Tasks, Futures, `sleep`, `wait_for`/`timeout` run on it, but

  * `time()` reads a shared `Clock`; when nothing is ready the clock jumps to the next timer;
  * each iteration runs exactly ONE ready handle, picked by the schedule PRNG (not FIFO);
  * "nothing ready, no timer" with the loop still asked to run raises `Deadlock` - never a hang;
  * a step cap bounds runaway runs.

`install(world)` routes `asyncio.new_event_loop()` (used by make_it_sync's worker thread) to a
`SimLoop` on the same clock / PRNG, and replaces make_it_sync's ThreadPoolExecutor with one that
starts a real thread and joins it immediately, so only one thread is ever runnable and the OS
makes no scheduling decision.  The real `make_sync` logic runs unmodified.
"""
import asyncio
import hashlib
import heapq
import threading


class Deadlock(Exception):
    "Raised by the simulator when a loop has pending work but nothing can ever run."


class StepCap(Exception):
    "Raised when a run exceeds its loop-step budget."


class World:
    "Everything a run's loops share: virtual clock, schedule PRNG, trace digest, counters."

    def __init__(self, sched_rng, step_cap=20000):
        self.now = 0.0
        self.rng = sched_rng
        self.step_cap = step_cap
        self.steps = 0
        self.choice_points = 0  # steps where more than one handle was ready
        self.clock_jumps = 0
        self.loops = 0
        self.threads = 0
        self._trace = hashlib.sha1()
        self.trace_head = []  # first few picks, for samples

    def note(self, i, n):
        self._trace.update(b"%.6f,%d,%d;" % (self.now, i, n))
        if len(self.trace_head) < 24:
            self.trace_head.append((round(self.now, 6), i, n))

    def trace_digest(self):
        return self._trace.hexdigest()[:16]


class SimLoop(asyncio.BaseEventLoop):
    def __init__(self, world: World):
        super().__init__()
        self._w = world
        world.loops += 1

    def time(self):
        return self._w.now

    def _process_events(self, event_list):
        pass

    def _write_to_self(self):
        pass

    def _run_once(self):
        w = self._w
        sched = self._scheduled
        while sched and sched[0]._cancelled:
            h = heapq.heappop(sched)
            h._scheduled = False
        if not self._ready and sched:
            when = sched[0]._when
            if when > w.now:
                w.now = when
                w.clock_jumps += 1
        end = w.now + self._clock_resolution
        while sched and sched[0]._when < end:
            h = heapq.heappop(sched)
            h._scheduled = False
            if not h._cancelled:
                self._ready.append(h)
        ready = self._ready
        n = len(ready)
        if n == 0:
            if not sched:
                raise Deadlock("nothing runnable")
            return
        if n == 1:
            i = 0
            h = ready.popleft()
        else:
            i = w.rng.randrange(n)
            ready.rotate(-i)
            h = ready.popleft()
            ready.rotate(i)
            w.choice_points += 1
        w.steps += 1
        if w.steps > w.step_cap:
            raise StepCap(f"more than {w.step_cap} loop steps")
        if not h._cancelled:
            w.note(i, n)
            h._run()
        h = None


class SimPolicy(asyncio.DefaultEventLoopPolicy):
    "new_event_loop() gives a SimLoop on the current world."

    world = None

    def new_event_loop(self):
        assert SimPolicy.world is not None, "no simulated world installed"
        return SimLoop(SimPolicy.world)


class _SimFuture:
    def __init__(self):
        self._r = None
        self._e = None

    def result(self, timeout=None):
        if self._e is not None:
            raise self._e
        return self._r


class SimThreadPool:
    """Stands in for concurrent.futures.ThreadPoolExecutor inside make_it_sync: runs the job on
    a real thread, but the submitting thread waits for it at once (baton passing)."""

    def __init__(self, max_workers=1):
        pass

    def submit(self, fn, *a, **k):
        f = _SimFuture()
        if SimPolicy.world is not None:
            SimPolicy.world.threads += 1

        def run():
            try:
                f._r = fn(*a, **k)
            except BaseException as e:  # delivered to the caller by result()
                f._e = e

        t = threading.Thread(target=run, name="sim-make-sync")
        t.start()
        t.join()
        return f


_installed = False


def install(world: World):
    "Install policy + thread seam (idempotent) and make `world` the current one."
    global _installed
    SimPolicy.world = world
    if not _installed:
        import make_it_sync.func_wrapper as fw

        fw.ThreadPoolExecutor = SimThreadPool
        asyncio.set_event_loop_policy(SimPolicy())
        _installed = True


def run(world: World, coro):
    "Run `coro` to completion on a fresh outer SimLoop of `world`."
    install(world)
    loop = SimLoop(world)
    try:
        return loop.run_until_complete(coro)
    finally:
        try:
            loop.close()
        except Exception:
            pass
