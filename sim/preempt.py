"""Pre-emptive interleaving of threads INSIDE library code, decided by the run's PRNG.

Several callables run on real threads, but exactly one holds the baton.  A trace function makes
every source line that code of the package under test executes a possible pre-emption point:
with probability `p` (PRNG) the baton goes to another runnable thread (PRNG) and the current one
parks until it gets the baton back.  So one seed is one exact interleaving of the threads' lines,
and it replays.  The callables must not block on each other (they call the library, which holds
no locks); a thread that finishes hands the baton on.

This is the thread-scheduling counterpart of SimLoop: there the simulator decides which ready
callback of an event loop runs next, here it decides after which line of the library another
thread runs.
"""
import sys
import threading


import dis

_GLOBAL_WRITES = {dis.opmap[n] for n in ("STORE_GLOBAL", "DELETE_GLOBAL") if n in dis.opmap}
_OBJECT_WRITES = {dis.opmap[n] for n in ("STORE_ATTR", "STORE_SUBSCR", "DELETE_ATTR", "DELETE_SUBSCR")
                  if n in dis.opmap}


class SimLock:
    """Stands in for a module-level lock of the package while a pre-emptive block runs.  Only
    the baton holder executes, so taking the lock needs no atomicity; what matters is that a
    thread which finds it taken gives the baton away instead of blocking for real (the holder
    may be parked by the simulator) and becomes runnable again when the lock is released."""

    def __init__(self, pr, real, reentrant):
        self.pr = pr
        self.real = real
        self.reentrant = reentrant
        self.owner = None
        self.depth = 0

    def _me(self):
        cur = self.pr.current
        if cur is not None and cur.get("thread") is threading.current_thread():
            return cur
        return None

    def acquire(self, blocking=True, timeout=-1):
        me = self._me()
        if me is None:
            return self.real.acquire(blocking, timeout)
        while self.owner is not None and not (self.reentrant and self.owner is me):
            if not blocking:
                return False
            me["blocked"] = self
            self.pr.lock_waits += 1
            self.pr._yield(must=True)
        self.owner = me
        self.depth += 1
        return True

    def release(self):
        me = self._me()
        if me is None:
            return self.real.release()
        self.depth -= 1
        if self.depth == 0:
            self.owner = None
            for s in self.pr.slots:
                if s.get("blocked") is self:
                    s["blocked"] = None

    def locked(self):
        return self.owner is not None or self.real.locked()

    __enter__ = acquire

    def __exit__(self, *a):
        self.release()
        return False


class Preempt:
    def __init__(self, rng, p, prefix, max_switches=2000, package="func_adl"):
        self.package = package
        self.rng = rng
        self.p = p
        self.prefix = prefix
        self.max_switches = max_switches
        self.switches = 0
        self.points = 0
        self.slots = []
        self.current = None
        self.first = None
        self.opcodes = False  # pre-emption points are bytecodes instead of source lines
        self.directed = 0.0  # > 0: park threads right before they write shared state
        self.lock_waits = 0
        self._locks = []
        self.stop_after = None  # set by the caller for the stop-and-run schedule
        self.done = threading.Event()

    # -- tracing ---------------------------------------------------------------------------
    def _tracer(self, frame, event, arg):
        # never inside a module body: the thread holds an import lock there, a REAL lock on
        # which the thread that gets the baton could block for good
        if frame.f_code.co_filename.startswith(self.prefix) and frame.f_code.co_name != "<module>":
            if self.opcodes:
                # every BYTECODE of the library is a pre-emption point (a thread switch in the
                # middle of `counter += 1`); on CPython 3.12 the flag only takes effect once
                # settrace has been called again from inside the call event
                frame.f_trace_opcodes = True
                sys.settrace(self._tracer)
            return self._local
        return None

    def _preimport(self):
        "Import every module of the package now: no import (and no import lock) inside the block."
        import importlib
        import pkgutil

        try:
            pkg = importlib.import_module(self.package)
            for info in pkgutil.walk_packages(pkg.__path__, self.package + "."):
                try:
                    importlib.import_module(info.name)
                except Exception:
                    pass
        except Exception:
            pass

    def _local(self, frame, event, arg):
        if event == ("opcode" if self.opcodes else "line"):
            self.points += 1
            if self.opcodes and self.directed and self.switches < self.max_switches:
                # race-directed: a thread about to WRITE shared state (a module global; now and
                # then an attribute or an item) is parked there while the others go on - the
                # schedule that turns `counter += 1` into a lost update
                op = frame.f_code.co_code[frame.f_lasti]
                if (op in _GLOBAL_WRITES and self.rng.random() < 0.5) or (
                        op in _OBJECT_WRITES and self.rng.random() < self.directed):
                    self._yield(park=True)
                    return self._local
            if self.stop_after is not None:
                # "stop and run": the thread that started runs N lines, is parked there, the
                # others run to completion, then it goes on - the schedule that finds a narrow
                # window in a long operation
                if self.current is self.first:
                    self.first_points = getattr(self, "first_points", 0) + 1
                    if self.first_points == self.stop_after:
                        self._yield(park=True)
            elif self.switches < self.max_switches and self.rng.random() < self.p:
                self._yield()
        return self._local

    # -- baton -----------------------------------------------------------------------------
    def _runnable(self):
        return [s for s in self.slots if not s["done"] and s.get("blocked") is None]

    def _own_locks(self):
        "Module-level locks of the package become SimLocks for the duration of the block."
        lock_t, rlock_t = type(threading.Lock()), type(threading.RLock())
        for name, mod in list(sys.modules.items()):
            if mod is None or not (name == self.package or name.startswith(self.package + ".")):
                continue
            for attr, val in list(vars(mod).items()):
                if isinstance(val, (lock_t, rlock_t)):
                    setattr(mod, attr, SimLock(self, val, isinstance(val, rlock_t)))
                    self._locks.append((mod, attr, val))

    def _restore_locks(self):
        for mod, attr, val in self._locks:
            setattr(mod, attr, val)
        self._locks = []

    @staticmethod
    def _under_foreign_lock(frame):
        """Library code that runs inside a logging handler (a record being formatted) runs under
        that handler's lock - a real lock the simulator does not own: no pre-emption there."""
        f, n = frame, 0
        while f is not None and n < 60:
            fn = f.f_code.co_filename
            if fn.endswith("logging/__init__.py") or fn.endswith("logging/handlers.py"):
                return True
            f, n = f.f_back, n + 1
        return False

    def _yield(self, park=False, must=False):
        me = self.current
        if not must and self._under_foreign_lock(sys._getframe(1)):
            return
        cands = self._runnable()
        if must:
            # the current thread cannot go on (it waits for a lock of the package)
            if not cands:
                me["blocked"] = None
                raise RuntimeError("deadlock: every thread of the block waits for a lock")
        elif len(cands) < 2:
            return
        if park:
            me["parked"] = True
            cands = [c for c in cands if c is not me]
        nxt = cands[self.rng.randrange(len(cands))]
        if nxt is me:
            return
        nxt["parked"] = False
        self.switches += 1
        self.current = nxt
        nxt["go"].set()
        me["go"].wait()
        me["go"].clear()

    def _body(self, slot):
        slot["thread"] = threading.current_thread()
        slot["go"].wait()
        slot["go"].clear()
        sys.settrace(self._tracer)
        try:
            slot["result"] = ("ok", slot["fn"]())
        except BaseException as e:  # reported to the caller, never lost
            slot["result"] = ("exc", e)
        finally:
            sys.settrace(None)
            slot["done"] = True
            rest = self._runnable()
            if not rest and any(not x["done"] for x in self.slots):
                # the others all wait for locks nobody will release: let them find out
                rest = [x for x in self.slots if not x["done"]]
            if rest:
                free = [r for r in rest if not r.get("parked")] or rest  # parked ones go last
                nxt = free[self.rng.randrange(len(free))]
                nxt["parked"] = False
                self.current = nxt
                nxt["go"].set()
            else:
                self.done.set()

    def run(self, fns):
        "Run the callables to completion under one seeded interleaving; returns their outcomes."
        self._preimport()
        self._own_locks()
        try:
            return self._run(fns)
        finally:
            self._restore_locks()

    def _run(self, fns):
        self.slots = [{"fn": f, "go": threading.Event(), "done": False, "result": None}
                      for f in fns]
        ths = [threading.Thread(target=self._body, args=(s,), name=f"preempt-{i}")
               for i, s in enumerate(self.slots)]
        for t in ths:
            t.start()
        i0 = self.rng.randrange(len(self.slots))
        first = self.slots[i0]
        if getattr(self, "stop_counts", None):
            self.stop_after = max(1, int(self.stop_frac * max(1, self.stop_counts[i0])))
        self.first = first
        self.current = first
        first["go"].set()
        if not self.done.wait(60):
            raise RuntimeError("pre-emptive block did not finish: a thread holding the baton is "
                               "blocked on something the simulator does not own")
        for t in ths:
            t.join(10)
        return [s["result"] for s in self.slots]
