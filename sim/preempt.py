"""Pre-emptive interleaving of threads INSIDE library code, decided by the run's PRNG.

Several callables run on real threads, but exactly one holds the baton.  A trace function makes
every source line that code of the package under test executes a possible pre-emption point:
with probability `p` (PRNG) the baton goes to another runnable thread (PRNG) and the current one
parks until it gets the baton back.  So one seed is one exact interleaving of the threads' lines,
and it replays.  The callables must not block on each other (they call the library, which holds
no locks); a thread that finishes hands the baton on.

This is the thread-scheduling counterpart of SimLoop: there the simulator decides which ready
callback of an event loop runs next, here it decides after which line of the library another
thread runs.
"""
import sys
import threading


class Preempt:
    def __init__(self, rng, p, prefix, max_switches=2000, package="func_adl"):
        self.package = package
        self.rng = rng
        self.p = p
        self.prefix = prefix
        self.max_switches = max_switches
        self.switches = 0
        self.points = 0
        self.slots = []
        self.current = None
        self.done = threading.Event()

    # -- tracing ---------------------------------------------------------------------------
    def _tracer(self, frame, event, arg):
        # never inside a module body: the thread holds an import lock there, a REAL lock on
        # which the thread that gets the baton could block for good
        if frame.f_code.co_filename.startswith(self.prefix) and frame.f_code.co_name != "<module>":
            return self._local
        return None

    def _preimport(self):
        "Import every module of the package now: no import (and no import lock) inside the block."
        import importlib
        import pkgutil

        try:
            pkg = importlib.import_module(self.package)
            for info in pkgutil.walk_packages(pkg.__path__, self.package + "."):
                try:
                    importlib.import_module(info.name)
                except Exception:
                    pass
        except Exception:
            pass

    def _local(self, frame, event, arg):
        if event == "line":
            self.points += 1
            if self.switches < self.max_switches and self.rng.random() < self.p:
                self._yield()
        return self._local

    # -- baton -----------------------------------------------------------------------------
    def _runnable(self):
        return [s for s in self.slots if not s["done"]]

    def _yield(self):
        me = self.current
        cands = self._runnable()
        if len(cands) < 2:
            return
        nxt = cands[self.rng.randrange(len(cands))]
        if nxt is me:
            return
        self.switches += 1
        self.current = nxt
        nxt["go"].set()
        me["go"].wait()
        me["go"].clear()

    def _body(self, slot):
        slot["go"].wait()
        slot["go"].clear()
        sys.settrace(self._tracer)
        try:
            slot["result"] = ("ok", slot["fn"]())
        except BaseException as e:  # reported to the caller, never lost
            slot["result"] = ("exc", e)
        finally:
            sys.settrace(None)
            slot["done"] = True
            rest = self._runnable()
            if rest:
                nxt = rest[self.rng.randrange(len(rest))]
                self.current = nxt
                nxt["go"].set()
            else:
                self.done.set()

    def run(self, fns):
        "Run the callables to completion under one seeded interleaving; returns their outcomes."
        self._preimport()
        self.slots = [{"fn": f, "go": threading.Event(), "done": False, "result": None}
                      for f in fns]
        ths = [threading.Thread(target=self._body, args=(s,), name=f"preempt-{i}")
               for i, s in enumerate(self.slots)]
        for t in ths:
            t.start()
        first = self.slots[self.rng.randrange(len(self.slots))]
        self.current = first
        first["go"].set()
        if not self.done.wait(120):
            raise RuntimeError("pre-emptive block did not finish")
        for t in ths:
            t.join(10)
        return [s["result"] for s in self.slots]
