"""ddmin over the op list, then single-op removal to a fixpoint, then argument simplification.

Operand references in ops are modulo-indexed, so every subsequence is a valid op list; schedule
choices are re-derived from the case's sched_seed, so a shrunk list is still one exact execution.
A candidate is kept while a violation of the *same class* persists.
"""
import copy
import time

from .core import isolated


def family(cls: str) -> str:
    "Violation family: property/oracle (the third segment only says when it was noticed)."
    return "/".join(cls.split("/")[:2])


def minimise(engine, case, cls, max_exec=None):
    max_exec = max_exec or getattr(engine, "SHRINK_EXEC", 600)
    # minimisation is bounded in wall time too (long histories take seconds per candidate); what
    # has been reached by then is reported - it still replays, it is just not minimal
    deadline = time.time() + getattr(engine, "SHRINK_TIME", 300)
    n_exec = [0]
    best_v = [None]

    def test(ops, base=None):
        if n_exec[0] >= max_exec or (n_exec[0] > 2 and time.time() > deadline):
            return False
        n_exec[0] += 1
        c = dict(base or case)
        c["ops"] = ops
        try:
            r = isolated(engine.execute, copy.deepcopy(c))
        except Exception:
            return False
        v = r["violation"]
        if v is not None and family(v["class"]) == family(cls):
            best_v[0] = v
            return True
        return False

    ops = list(case["ops"])
    if not test(ops):
        raise RuntimeError("violation did not reproduce in the parent process")
    # rewrite modulo references as stable ones (names of the ops that created the operands),
    # so that deleting an op does not re-target the others
    try:
        r = isolated(engine.execute, {**copy.deepcopy(case), "want_resolved": True})
        res_ops = r.get("resolved_ops")
        if res_ops and test(res_ops):
            ops = res_ops
    except Exception:
        pass
    rm = getattr(engine, "remove_op", None)

    def drop(ops, lo, hi):
        if rm is None:
            return ops[:lo] + ops[hi:]
        out = ops
        for i in range(min(hi, len(ops)) - 1, lo - 1, -1):
            out = rm(out, i)
        return out

    # classic ddmin
    n = 2
    while len(ops) >= 2:
        chunk = max(1, len(ops) // n)
        reduced = False
        for i in range(0, len(ops), chunk):
            cand = drop(ops, i, i + chunk)
            if cand and test(cand):
                ops = cand
                n = max(n - 1, 2)
                reduced = True
                break
        if not reduced:
            if chunk == 1:
                break
            n = min(len(ops), n * 2)
    # single-op removal to a fixpoint
    changed = True
    while changed:
        changed = False
        for i in range(len(ops) - 1, -1, -1):
            cand = drop(ops, i, i + 1)
            if cand and test(cand):
                ops = cand
                changed = True
    # argument simplification
    simp = getattr(engine, "op_simplifications", None)
    if simp is not None:
        changed = True
        while changed:
            changed = False
            for i, op in enumerate(ops):
                for alt in simp(op):
                    cand = ops[:i] + [alt] + ops[i + 1:]
                    if test(cand):
                        ops = cand
                        changed = True
                        break
    small = dict(case)
    small["ops"] = ops
    csimp = getattr(engine, "case_simplifications", None)
    if csimp is not None:
        changed = True
        while changed:
            changed = False
            for alt in csimp(small):
                if test(alt["ops"], base=alt):
                    small = alt
                    ops = alt["ops"]
                    changed = True
                    break
    test(small["ops"], base=small)
    return small, best_v[0], n_exec[0]
