"""Small typed class models for the forest engine (A.3 of DESIGN).

The models matter to C11/C12/C16 only as a source of in-place edits (default filling, fix-ups,
metadata hoisting by callbacks); no oracle asks whether the typed rewrite is *right* (C07-C09).
Callbacks consult `FAULT` so the simulator can make one raise in the middle of a derive.
"""
import dataclasses
from typing import Iterable, TypeVar

from func_adl import ObjectStream, func_adl_callable, func_adl_callback
from func_adl import func_adl_parameterized_call
from func_adl import register_func_adl_os_collection
from func_adl.type_based_replacement import (
    ObjectStreamInternalMethods,
    reset_global_functions,
)

FAULT = {"cb_raise": False, "cb_calls": 0}


def _raise_now(tag):
    "True: every callback raises; a string: only callbacks whose tag starts with it."
    f = FAULT["cb_raise"]
    return f is True or (isinstance(f, str) and tag.startswith(f))


class InjectedCallbackError(RuntimeError):
    pass


def _cb(tag):
    def cb(s: ObjectStream, a):
        FAULT["cb_calls"] += 1
        if _raise_now(tag):
            raise InjectedCallbackError(tag)
        return s.MetaData({"m": tag}), a

    return cb


ISSUED = []  # every stream a keeping callback handed out (they are streams like any other)
_MEMO = {}


def _cb_keep(tag):
    """A callback that memoises the decorated stream per source stream - legitimate precisely
    because streams are immutable values - and keeps what it issued."""

    def cb(s: ObjectStream, a):
        FAULT["cb_calls"] += 1
        if _raise_now(tag):
            raise InjectedCallbackError(tag)
        key = (tag, id(s))
        if key not in _MEMO:
            out = s.MetaData({"m": tag})
            _MEMO[key] = (s, out)
            ISSUED.append(out)
        return _MEMO[key][1], a

    return cb


# variant 0: plain typed classes, defaults only
class Jet0:
    def pt(self, scale: float = 1.0) -> float: ...  # noqa

    def eta(self, a: int = 1, b: int = 2) -> float: ...  # noqa


class Evt0:
    def jets(self, name: str = "def") -> Iterable[Jet0]: ...  # noqa

    def met(self) -> float: ...  # noqa

    def need(self, name: str) -> float: ...  # noqa


# variant 1: class-level and method-level callbacks that hoist MetaData
class Jet1:
    def pt(self, scale: float = 1.0) -> float: ...  # noqa

    @func_adl_callback(_cb("jet_eta"))
    def eta(self, a: int = 1, b: int = 2) -> float: ...  # noqa


def _param_cb(s: ObjectStream, a, param):
    FAULT["cb_calls"] += 1
    if _raise_now("info"):
        raise InjectedCallbackError("info")
    return s.MetaData({"p": str(param)}), a, float


@func_adl_callback(_cb("evt"))
class Evt1:
    def jets(self, name: str = "def") -> Iterable[Jet1]: ...  # noqa

    @property
    def info(self): ...  # noqa  (a parameterized property: e.info['x'](1))

    def met(self) -> float: ...  # noqa

    def need(self, name: str) -> float: ...  # noqa


# variant 2: a registered custom collection class
T = TypeVar("T")


class JetColl(ObjectStreamInternalMethods[T]):
    def __init__(self, a, item_type):
        super().__init__(a, item_type)

    def Last(self) -> T:
        return self.item_type  # type: ignore


class Jet2:
    def pt(self, scale: float = 1.0) -> float: ...  # noqa

    def eta(self, a: int = 1, b: int = 2) -> float: ...  # noqa


class Evt2:
    def jets(self, name: str = "def") -> JetColl[Jet2]: ...  # noqa

    def met(self) -> float: ...  # noqa

    def need(self, name: str) -> float: ...  # noqa


# variant 3: callbacks that keep the streams they return
class Jet3:
    def pt(self, scale: float = 1.0) -> float: ...  # noqa

    @func_adl_callback(_cb_keep("jet3_eta"))
    def eta(self, a: int = 1, b: int = 2) -> float: ...  # noqa


@func_adl_callback(_cb_keep("evt3"))
class Evt3:
    def jets(self, name: str = "def") -> Iterable[Jet3]: ...  # noqa

    def met(self) -> float: ...  # noqa

    def need(self, name: str) -> float: ...  # noqa


# variant 4: callbacks that USE the library while the derive that called them is in progress
# (re-entrancy): they look query metadata up, hash the stream, derive a side stream and keep it
REENT_LOG = []


def _cb_reenter(tag):
    def cb(s: ObjectStream, a):
        from func_adl.ast.ast_hash import calc_ast_hash
        from func_adl.ast.meta_data import lookup_query_metadata

        FAULT["cb_calls"] += 1
        if _raise_now(tag):
            raise InjectedCallbackError(tag)
        h0 = calc_ast_hash(s.query_ast)
        for k in ("k0", "k1", "title"):
            lookup_query_metadata(s, k)
        side = s.Select("lambda q: q")  # a complete derive nested in the outer one
        ISSUED.append(side)
        REENT_LOG.append((tag, h0 == calc_ast_hash(s.query_ast)))
        return s.MetaData({"m": tag}), a

    return cb


class Jet4:
    def pt(self, scale: float = 1.0) -> float: ...  # noqa

    @func_adl_callback(_cb_reenter("jet4_eta"))
    def eta(self, a: int = 1, b: int = 2) -> float: ...  # noqa


@func_adl_callback(_cb_reenter("evt4"))
class Evt4:
    def jets(self, name: str = "def") -> Iterable[Jet4]: ...  # noqa

    def met(self) -> float: ...  # noqa

    def need(self, name: str) -> float: ...  # noqa


EVT = [Evt0, Evt1, Evt2, Evt3, Evt4]


@dataclasses.dataclass
class DC:
    a: float
    b: float


def _fsq_processor(s, a):
    FAULT["cb_calls"] += 1
    if _raise_now("fsq"):
        raise InjectedCallbackError("fsq")
    return s.MetaData({"f": "fsq"}), a


def setup():
    "Reset the library's process-global registries and register this zoo (run start)."
    reset_global_functions()
    FAULT["cb_raise"] = False
    FAULT["cb_calls"] = 0
    ISSUED.clear()
    _MEMO.clear()
    REENT_LOG.clear()
    register_func_adl_os_collection(JetColl)
    func_adl_parameterized_call(_param_cb)(Evt1.__dict__["info"])

    @func_adl_callable(_fsq_processor)
    def fsq(x: float, p: int = 2) -> float: ...  # noqa

    @func_adl_callable()
    def fpl(x: float, q: int = 3) -> float: ...  # noqa
