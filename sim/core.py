"""Shared plumbing: seed mixing, named PRNG sub-streams, bootstrap of the tree under test.

One integer decides everything: every choice of a run is drawn from `Streams(seed)`, whose
sub-streams are keyed by a label, so a new draw in one stream never shifts another.  Nothing in
this module reads a clock or draws a number on a logging path.
"""
import hashlib
import json
import os
import random
import sys

ROOT = os.path.dirname(os.path.dirname(os.path.abspath(__file__)))
DEFAULT_SEED = 20261002


def mix(*parts) -> int:
    "Deterministic 63-bit mix of the parts (never Python's hash())."
    h = hashlib.sha256("\x1f".join(str(p) for p in parts).encode()).digest()
    return int.from_bytes(h[:8], "big") >> 1


class Streams:
    "Named PRNG sub-streams of one root seed."

    def __init__(self, seed: int):
        self.seed = seed
        self._s = {}

    def get(self, label: str) -> random.Random:
        r = self._s.get(label)
        if r is None:
            r = self._s[label] = random.Random(mix(self.seed, label))
        return r


def digest(obj) -> str:
    "Stable short digest of a JSON-able object."
    return hashlib.sha256(
        json.dumps(obj, sort_keys=True, default=repr).encode()
    ).hexdigest()[:16]


def func_adl_src() -> str:
    return os.path.abspath(os.environ.get("FUNC_ADL_SRC", "/repo"))


def bootstrap():
    """Make `import func_adl` resolve to the working tree under test (FUNC_ADL_SRC, default
    /repo) and make the interpreter's hash seed fixed.  Python imports the tree directly, so
    "rebuild from the current working tree" is automatic.  Re-execs once if PYTHONHASHSEED is
    not the one we want (VERIF_HASHSEED lets the self-test choose another)."""
    want = os.environ.get("VERIF_HASHSEED", "0")
    if os.environ.get("PYTHONHASHSEED") != want:
        env = dict(os.environ)
        env["PYTHONHASHSEED"] = want
        os.execve(sys.executable, [sys.executable] + sys.argv, env)
    src = func_adl_src()
    if sys.path[0] != src:
        sys.path.insert(0, src)
    if ROOT not in sys.path:
        sys.path.insert(1, ROOT)
    os.environ.setdefault("FUNC_ADL_VERIF", "1")
    import logging
    import warnings

    logging.disable(logging.CRITICAL)
    # a run aborted by a violation leaves never-started call coroutines behind
    warnings.filterwarnings("ignore", category=RuntimeWarning, message="coroutine .* was never awaited")
    warnings.filterwarnings("ignore", category=ResourceWarning)
    import func_adl

    got = os.path.dirname(os.path.dirname(os.path.abspath(func_adl.__file__)))
    if got != src:
        print(f"HARNESS-ERROR func_adl imported from {got}, expected {src}")
        sys.exit(2)
    sys.setrecursionlimit(3000)


def env_seed() -> int:
    v = os.environ.get("VERIF_SEED", "")
    try:
        return int(v)
    except ValueError:
        return DEFAULT_SEED
