"""Shared plumbing: seed mixing, named PRNG sub-streams, bootstrap of the tree under test.

One integer decides everything: every choice of a run is drawn from `Streams(seed)`, whose
sub-streams are keyed by a label, so a new draw in one stream never shifts another.  Nothing in
this module reads a clock or draws a number on a logging path.
"""
import hashlib
import json
import os
import random
import sys

ROOT = os.path.dirname(os.path.dirname(os.path.abspath(__file__)))
DEFAULT_SEED = 20261002


def mix(*parts) -> int:
    "Deterministic 63-bit mix of the parts (never Python's hash())."
    h = hashlib.sha256("\x1f".join(str(p) for p in parts).encode()).digest()
    return int.from_bytes(h[:8], "big") >> 1


class Streams:
    "Named PRNG sub-streams of one root seed."

    def __init__(self, seed: int):
        self.seed = seed
        self._s = {}

    def get(self, label: str) -> random.Random:
        r = self._s.get(label)
        if r is None:
            r = self._s[label] = random.Random(mix(self.seed, label))
        return r


def digest(obj) -> str:
    "Stable short digest of a JSON-able object."
    return hashlib.sha256(
        json.dumps(obj, sort_keys=True, default=repr).encode()
    ).hexdigest()[:16]


def func_adl_src() -> str:
    return os.path.abspath(os.environ.get("FUNC_ADL_SRC", "/repo"))


def bootstrap():
    """Make `import func_adl` resolve to the working tree under test (FUNC_ADL_SRC, default
    /repo) and make the interpreter's hash seed fixed.  Python imports the tree directly, so
    "rebuild from the current working tree" is automatic.  Re-execs once if PYTHONHASHSEED is
    not the one we want (VERIF_HASHSEED lets the self-test choose another)."""
    want = os.environ.get("VERIF_HASHSEED", "0")
    if os.environ.get("PYTHONHASHSEED") != want:
        env = dict(os.environ)
        env["PYTHONHASHSEED"] = want
        # keep the interpreter's own options (-O ...): sys.argv does not hold them
        argv = list(getattr(sys, "orig_argv", None) or [sys.executable] + sys.argv)
        argv[0] = sys.executable
        os.execve(sys.executable, argv, env)
    src = func_adl_src()
    if sys.path[0] != src:
        sys.path.insert(0, src)
    if ROOT not in sys.path:
        sys.path.insert(1, ROOT)
    os.environ.setdefault("FUNC_ADL_VERIF", "1")
    import logging
    import warnings

    logging.disable(logging.CRITICAL)
    # a run aborted by a violation leaves never-started call coroutines behind
    warnings.filterwarnings("ignore", category=RuntimeWarning, message="coroutine .* was never awaited")
    warnings.filterwarnings("ignore", category=ResourceWarning)
    warnings.filterwarnings("ignore", category=SyntaxWarning)
    import func_adl

    got = os.path.dirname(os.path.dirname(os.path.abspath(func_adl.__file__)))
    if got != src:
        print(f"HARNESS-ERROR func_adl imported from {got}, expected {src}")
        sys.exit(2)
    sys.setrecursionlimit(3000)


def env_seed() -> int:
    v = os.environ.get("VERIF_SEED", "")
    try:
        return int(v)
    except ValueError:
        return DEFAULT_SEED


class IsolationError(Exception):
    pass


def isolated(fn, *args, timeout=300):
    """Run fn(*args) in a forked child and return its (picklable) result.  Every simulated run
    starts from the same pristine process state: whatever the code under test keeps in module
    globals (caches, counters, registries) cannot leak from one run, shrink candidate or replay
    into the next - which is what makes a run a pure function of its case."""
    import pickle
    import select
    import signal
    import traceback

    timeout = float(os.environ.get("VERIF_ISOLATE_TIMEOUT", timeout))
    r, w = os.pipe()
    pid = os.fork()
    if pid == 0:
        code = 0
        try:
            os.close(r)
            # a run that hangs says where, shortly before the parent gives up on it (an alarm,
            # not faulthandler's watchdog thread: its state does not survive a fork)
            import faulthandler

            signal.signal(signal.SIGALRM, lambda *_: faulthandler.dump_traceback(all_threads=True))
            signal.alarm(int(max(timeout - 15, 5)))
            try:
                data = pickle.dumps(("ok", fn(*args)))
            except BaseException:
                sys.setrecursionlimit(max(sys.getrecursionlimit(), 3000))
                data = pickle.dumps(("err", traceback.format_exc()[-3000:]))
                code = 3
            with os.fdopen(w, "wb") as f:
                f.write(data)
        except BaseException as e:  # never leave silently
            try:
                os.write(2, ("isolated child failed outside the run: %r\n" % (e,)).encode())
            except BaseException:
                pass
            code = 4
        finally:
            os._exit(code)
    os.close(w)
    chunks = []
    try:
        while True:
            ready, _, _ = select.select([r], [], [], timeout)
            if not ready:
                os.kill(pid, signal.SIGKILL)
                raise IsolationError(f"isolated run exceeded {timeout}s")
            b = os.read(r, 1 << 20)
            if not b:
                break
            chunks.append(b)
    finally:
        os.close(r)
        os.waitpid(pid, 0)
    if not chunks:
        raise IsolationError("isolated run died without a result")
    kind, val = pickle.loads(b"".join(chunks))
    if kind == "err":
        raise IsolationError(val)
    return val


def frame_depth(f):
    "Number of Python frames from `f` outwards (what len(inspect.stack(0)) counts, but cheap)."
    n = 0
    while f is not None:
        n += 1
        f = f.f_back
    return n


class small_stack:
    """Fault: the code inside runs with only `extra` more Python frames available (a deep
    recursion overflows early, as it would for a much larger input).  restore() gives the
    normal limit back early (used by harness code that is called from inside the window)."""

    def __init__(self, extra):
        self.extra = extra
        self.normal = sys.getrecursionlimit()

    def __enter__(self):
        # a trace function armed for another operation (a crash point of a call in flight) would
        # use frames of its own inside the window: it is parked while the window is open
        self.trace = sys.gettrace()
        if self.trace is not None:
            sys.settrace(None)
        depth = frame_depth(sys._getframe())
        sys.setrecursionlimit(depth + max(self.extra, 3))
        return self

    def restore(self):
        sys.setrecursionlimit(self.normal)

    def __exit__(self, *a):
        sys.setrecursionlimit(self.normal)
        if self.trace is not None:
            sys.settrace(self.trace)
        return False


class InjectedAbort(BaseException):
    "Injected asynchronous exception that is not an Exception (`except Exception` never sees it)."


def crash_exception(kind: str, tag=""):
    "A fresh instance of the asynchronous exception a crash point delivers."
    if kind == "keyboard":
        return KeyboardInterrupt(f"injected at a crash point {tag}")
    if kind == "memory":
        return MemoryError(f"injected at a crash point {tag}")
    return InjectedAbort(f"injected at a crash point {tag}")


_WITH_LINES = {}


def _with_first_lines(prefix):
    "(file, line) of the first statement of every `with` body in the package under `prefix`."
    got = _WITH_LINES.get(prefix)
    if got is None:
        import ast
        import glob

        got = set()
        for f in glob.glob(os.path.join(prefix, "**", "*.py"), recursive=True):
            try:
                tree = ast.parse(open(f, encoding="utf-8").read())
            except Exception:
                continue
            for n in ast.walk(tree):
                if isinstance(n, (ast.With, ast.AsyncWith)) and n.body:
                    # the header line(s) too: the implicit __exit__ call at the normal end of
                    # the block is attributed to the `with` line and is not protected either
                    for ln in range(n.lineno, n.body[0].lineno + 1):
                        got.add((f, ln))
        _WITH_LINES[prefix] = got
    return got


class crash_at:
    """Fault "crash at an arbitrary point": an asynchronous exception (what Ctrl-C, a failed
    allocation or a kill request delivered as an exception do to a running operation) surfaces
    at the k-th source line that code under `prefix` (the library under test) executes inside the
    block - in frames entered after the block began, on the thread that armed it.  Exactly one
    exception is delivered; if the block executes fewer than k library lines nothing happens.
    Lines are counted only while `active()` is true and the tracer is not paused (the simulated
    back ends pause it: their own use of the library is not the operation being crashed).
    Deterministic: the line sequence is a function of the code and its inputs."""

    def __init__(self, k, exc, prefix=None, active=None):
        self.k = int(k)
        self.exc = exc
        self.prefix = prefix or (func_adl_src().rstrip("/") + "/func_adl/")
        self.active = active
        self.n = 0
        self.fired = False
        self.paused = 0
        self.prev = None

    def tracer(self, frame, event, arg):
        if self.fired:
            return None
        if frame.f_code.co_filename.startswith(self.prefix):
            return self._local
        return None

    def _local(self, frame, event, arg):
        if event == "line" and not self.fired and not self.paused and (
                self.active is None or self.active()):
            self.n += 1
            if self.n >= self.k and (frame.f_code.co_filename, frame.f_lineno) in _with_first_lines(self.prefix):
                # not on the header line of a `with` (its entry, and the implicit __exit__ call at
                # the normal end of the block, which is attributed to that line and lies outside
                # the protected range) nor on the first line of its body: an exception raised by
                # a trace function there would skip __exit__ - a state no real asynchronous
                # exception can produce (CPython makes no interrupt check between __enter__ and
                # the body, nor between the body and __exit__).  Delivered one line further on.
                return self._local
            if self.n >= self.k:
                self.fired = True
                sys.settrace(None)
                raise self.exc
        return self._local

    def __enter__(self):
        self.prev = sys.gettrace()
        sys.settrace(self.tracer)
        return self

    def __exit__(self, *a):
        sys.settrace(self.prev)
        return False
