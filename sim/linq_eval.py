"""Reference evaluator: Python itself runs a query AST over small in-memory data.

Not an interpreter - the AST is compiled and run by CPython in an environment of a few
one-liners whose Python meaning *is* the LINQ meaning.  Lessons built in (see DESIGN 2.5):
never go through ast.unparse (simplifier output is a DAG); every Seq operation ticks a work
budget; missing `ctx` is filled with Load().
"""
import ast


class Budget(BaseException):
    "Work budget exceeded: the (query, dataset) pair is skipped and counted, never compared."


_WORK = [0]
WORK_LIMIT = 200000


def _tick():
    _WORK[0] += 1
    if _WORK[0] > WORK_LIMIT:
        raise Budget()


def _t(it):
    for x in it:
        _tick()
        yield x


class Seq(list):
    def Select(self, f):
        return Seq(f(x) for x in _t(self))

    def Where(self, f):
        return Seq(x for x in _t(self) if f(x))

    def SelectMany(self, f):
        return Seq(y for x in _t(self) for y in _t(f(x)))

    def First(self):
        return self[0]

    def Count(self):
        return len(self)


class Rec:
    "A record with attribute access; equality is structural."

    def __init__(self, **kw):
        self.__dict__.update(kw)

    def __repr__(self):
        return "Rec(%s)" % ", ".join(f"{k}={v!r}" for k, v in sorted(self.__dict__.items()))

    def __eq__(self, o):
        return isinstance(o, Rec) and self.__dict__ == o.__dict__

    def __reduce__(self):  # picklable also when subclassed locally
        return (_rebuild_rec, (type(self), self.__dict__))

    __hash__ = None


def _rebuild_rec(cls, d):
    r = cls.__new__(cls)
    r.__dict__.update(d)
    return r


class D(dict):
    "dict literal whose keys can also be read as attributes (func_adl's dict/dataclass sugar)."

    def __getattr__(self, k):
        try:
            return self[k]
        except KeyError:
            raise AttributeError(k)


ENV = dict(
    Select=lambda s, f: Seq(s).Select(f),
    Where=lambda s, f: Seq(s).Where(f),
    SelectMany=lambda s, f: Seq(s).SelectMany(f),
    First=lambda s: s[0],
    Count=lambda s: len(s),
    D_=D,
    Seq_=Seq,
    sum=sum, len=len, abs=abs, max=max, min=min,
)

_CTX_TYPES = (ast.Name, ast.Attribute, ast.Subscript, ast.Tuple, ast.List, ast.Starred)


def unshare(n):
    """Structural copy giving every occurrence its own node; fills a missing ctx with Load();
    wraps dict literals in D_ and list literals in Seq_."""
    if isinstance(n, ast.AST):
        kw = {}
        for f in n._fields:
            if hasattr(n, f):
                kw[f] = unshare(getattr(n, f))
        if isinstance(n, _CTX_TYPES) and "ctx" not in kw:
            kw["ctx"] = ast.Load()
        if isinstance(n, ast.Call) and "keywords" not in kw:
            kw["keywords"] = []
        new = type(n)(**kw)
        if isinstance(n, ast.Dict):
            return ast.Call(ast.Name("D_", ast.Load()), [new], [])
        if isinstance(n, ast.List) and isinstance(kw.get("ctx"), ast.Load):
            return ast.Call(ast.Name("Seq_", ast.Load()), [new], [])
        return new
    if isinstance(n, list):
        return [unshare(x) for x in n]
    return n


def plain_copy(n):
    "Like unshare but without the D_/Seq_ wrapping (used to produce honest source text)."
    if isinstance(n, ast.AST):
        kw = {}
        for f in n._fields:
            if hasattr(n, f):
                kw[f] = plain_copy(getattr(n, f))
        if isinstance(n, _CTX_TYPES) and "ctx" not in kw:
            kw["ctx"] = ast.Load()
        if isinstance(n, ast.Call) and "keywords" not in kw:
            kw["keywords"] = []
        return type(n)(**kw)
    if isinstance(n, list):
        return [plain_copy(x) for x in n]
    return n


def compile_expr(a: ast.AST, env=None):
    "Compile an expression AST (e.g. a Lambda node) and evaluate it once in ENV (+env)."
    e = ast.Expression(unshare(a))
    ast.fix_missing_locations(e)
    g = {"__builtins__": {}}
    g.update(ENV)
    if env:
        g.update(env)
    return eval(compile(e, "<linq>", "eval"), g)


def evaluate(a: ast.AST, env=None):
    "Evaluate a closed query AST under a fresh work budget."
    _WORK[0] = 0
    return compile_expr(a, env)


def reset_budget():
    _WORK[0] = 0


def norm(v):
    "Normalise a result for structural comparison (tuples/lists/Seq alike, dict by key)."
    if isinstance(v, (list, tuple)):
        return [norm(x) for x in v]
    if isinstance(v, dict):
        return {"__d__": sorted((str(k), norm(x)) for k, x in v.items())}
    if isinstance(v, Rec):
        return {"__r__": sorted((k, norm(x)) for k, x in v.__dict__.items())}
    if isinstance(v, (set, frozenset)):
        return {"__s__": sorted(repr(norm(x)) for x in v)}
    if isinstance(v, bool):
        return ("b", v)
    if isinstance(v, float):
        # 40.0 is not 40, -0.0 is not 0.0: type and sign are part of it - the VALUE is what
        # counts, not how an instance of a subclass chooses to print itself
        return ("f", float.__repr__(float.__float__(v)))
    if isinstance(v, bytes):
        return ("y", bytes.__getitem__(v, slice(None)).decode("latin-1"))
    if isinstance(v, int):
        return int.__index__(v)
    if isinstance(v, str):
        return str.__str__(v)
    if v is None:
        return v
    return ("obj", type(v).__name__)


def outcome(fn, *args):
    "('ok', value) or ('exc', type name); Budget is reported as ('budget',)."
    try:
        return ("ok", norm(fn(*args)))
    except Budget:
        return ("budget",)
    except RecursionError:
        return ("exc", "RecursionError")
    except Exception as ex:
        return ("exc", type(ex).__name__)
