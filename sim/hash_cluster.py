"""Engine `hash_cluster` (C20): a cluster of fresh interpreters computing query hashes.

Nodes are real child interpreters (sim/hash_node.py), each with a PRNG-drawn PYTHONHASHSEED, a
patched wall clock at a PRNG-drawn epoch, a PRNG-drawn import order and pre-history.  A run
builds 6-14 base queries, each several times on different nodes and in different ways (lambda
as string / AST / Python callable in different source layouts, other dataset object, with and
without QMetaData annotations, before and after executing the stream, after a back-end pass),
plus every base query's single-edit neighbours; a final *rehash* node receives the serialised
queries of all other nodes (a restart between building and hashing).  Faults between two
hashes of one query object: clock jump, attach/detach of non-field annotations, relocation of
source positions.

Oracle over ALL results of the run, across all nodes: with canon() the checker's own structural
serialisation,   calc_ast_hash(a) == calc_ast_hash(b)  <=>  canon(a) == canon(b).
"""
import ast
import hashlib
import json
import os
import subprocess
import sys

from .core import ROOT, Streams, func_adl_src, mix

ENGINE_VERSION = 1
CHUNK = 2
SLICE_MIN_RUNS = 40
ISOLATE = False  # every node already is a fresh interpreter
RULE = ("one case = one cluster run: 2-4 fresh interpreters (own PYTHONHASHSEED, clock epoch, import "
        "order, pre-history) + one rehash node; 6-14 base queries built 2-4 ways each plus their "
        "single-edit neighbours (operator, name, constant value, constant type, argument order, "
        "nesting, stage operator); hash==hash <=> canon==canon over all results.  non-trivial = "
        "the run produced at least one canon-equal pair built differently (other process, supply "
        "mode, layout, annotations, executed-before, re-hashed after restart) and at least one "
        "single-edit neighbour pair; distinct = different SHA-1 of the build specs")
COMPONENTS_REAL = ["func_adl (all modules) in real child interpreters", "hashlib/ast of CPython",
                   "real process boundaries, real PYTHONHASHSEED, real object addresses"]
COMPONENTS_STUB = ["wall clock inside nodes (time.time/time_ns/monotonic patched to the simulated epoch)",
                   "the shared query cache (a dict in the driver)", "back ends (echo executor)"]
ASSUMPTIONS = [
    "canon() (fields in _fields order, optional-None fields omitted, constants as (type, repr)) is what 'structurally identical' means",
    "a clock-salted hash that bypasses the patched time module would still be caught (hashes differ between nodes) but its replay would not be bit-exact",
]
REQUIRED_PROBES = {"C20": ["probe_canon_equal_cross_process", "probe_canon_equal_other_supply_mode",
                           "probe_neighbour_pairs", "probe_rehash_after_restart",
                           "fault_clock_jump", "fault_annotation_attach_detach"]}
BUDGETS = {"C20": dict(quick_runs=280, thorough_budget=900, selftest_seeds=8,
                       technique="deterministic simulation: seeded cluster of fresh interpreters (hash seed, clock, import order, pre-history, restarts), all-pairs hash/structure relation")}

BASES = [
    [["Select", "lambda e: e.x + 1"]],
    [["Select", "lambda e: (e.x, e.y)"], ["Where", "lambda t: t[0] > 2"]],
    [["SelectMany", "lambda e: e.jets"], ["Select", "lambda j: j.pt * 2"]],
    [["Where", "lambda e: e.n > 1 and e.m < 3"], ["Select", "lambda e: e.jets.Select(lambda j: j.pt)"]],
    [["Select", "lambda e: {'a': e.x, 'b': e.y}"], ["Select", "lambda d: d.a + d.b"]],
    [["Select", "lambda e: e.jets.Where(lambda j: j.pt > 30).Count()"]],
    [["Select", "lambda e: e.x if e.y > 0 else 0"], ["Where", "lambda v: v >= 1"]],
    [["Select", "lambda e: [j.eta for j in e.jets if j.pt > 1]"]],
    [["Select", "lambda e: e.met(1, 'a')"], ["Where", "lambda m: m > 1.5"]],
    [["Select", "lambda e: -e.x"], ["Select", "lambda v: v * 1.0"]],
    [["Select", "lambda e: e.name == 'mu'"]],
    [["SelectMany", "lambda e: e.jets.Select(lambda j: (j.pt, e.x))"], ["Where", "lambda p: p[0] > p[1]"]],
    [["Select", "lambda e: e.tracks('\u03bc+', 'caf\u00e9')"], ["Where", "lambda t: t.q != 'e\u2212'"]],
    # text that looks like something a serialiser might want to tidy up: a pasted object repr,
    # dump-like syntax, quotes / escapes / control characters, empty and long strings, bytes
    [["Select", "lambda e: e.coll('<Jet object at 0x1a2b>')"], ["Where", "lambda c: c.n > 0"]],
    [["Select", "lambda e: e.get(\"Constant(value=1)\", 'Name(id=\\'e\\', ctx=Load())')"]],
    [["Select", "lambda e: e.tag == 'a\\nb\\t\\\\c\\x00d'"], ["Where", "lambda f: f != ''"]],
    [["Select", "lambda e: e.br(b'raw\\x00', 'it\\'s \"q\"', ' padded ')"]],
    [["Select", "lambda e: e.path('/data/run_00012345/file_000000000000000000000000000000000000001.root')"]],
]
IMPORTS = ["func_adl", "func_adl.ast", "func_adl.ast.ast_hash", "func_adl.ast.function_simplifier",
           "func_adl.type_based_replacement", "func_adl.util_ast", "func_adl.object_stream",
           "func_adl.ast.meta_data", "hashlib", "random", "asyncio"]


# ---------------------------------------------------------------------------------------------
# single-edit neighbours (text level, in the driver)
# ---------------------------------------------------------------------------------------------
class _Edit(ast.NodeTransformer):
    def __init__(self, kind, target):
        self.kind, self.target, self.i, self.done = kind, target, 0, False

    def generic_visit(self, node):
        node = super().generic_visit(node)
        return self.maybe(node)

    def maybe(self, n):
        k = self.kind
        hit = None
        if k == "operator" and isinstance(n, ast.BinOp):
            hit = ast.BinOp(n.left, ast.Sub() if isinstance(n.op, ast.Add) else ast.Add(), n.right)
        elif k == "operator" and isinstance(n, ast.Compare):
            hit = ast.Compare(n.left, [ast.Lt() if isinstance(n.ops[0], ast.Gt) else ast.Gt()], n.comparators)
        elif k == "operator" and isinstance(n, ast.BoolOp):
            hit = ast.BoolOp(ast.Or() if isinstance(n.op, ast.And) else ast.And(), n.values)
        elif k == "name" and isinstance(n, ast.Attribute):
            hit = ast.Attribute(n.value, n.attr + "2", n.ctx)
        elif k == "const_value" and isinstance(n, ast.Constant) and isinstance(n.value, (int, float)) and not isinstance(n.value, bool):
            hit = ast.Constant(n.value + 1)
        elif k == "const_value" and isinstance(n, ast.Constant) and isinstance(n.value, str):
            hit = ast.Constant(n.value + "x")
        elif k == "const_text" and isinstance(n, ast.Constant) and isinstance(n.value, (str, bytes)) and len(n.value) > 0:
            # a small change INSIDE the text: one character, a deleted run, a swap, padding
            v, how = n.value, self.target % 5
            mid = len(v) // 2
            if isinstance(v, bytes):
                alt = v[:mid] + bytes([(v[mid] + 1) % 256]) + v[mid + 1:] if how % 2 else v + b" "
            elif how == 0 and " at 0x" in v:
                i = v.index(" at 0x") + 6
                alt = v[:i] + ("7" if v[i] != "7" else "8") + v[i + 1:]
            elif how == 1 and " at " in v and ">" in v:
                alt = v[:v.index(" at ")] + v[v.rindex(">"):]
            elif how == 2 and len(v) > 1 and v[mid - 1] != v[mid]:
                alt = v[:mid - 1] + v[mid] + v[mid - 1] + v[mid + 1:]
            elif how == 3:
                alt = v + " "
            else:
                alt = v[:mid] + chr(ord(v[mid]) + 1) + v[mid + 1:]
            if alt != v:
                hit = ast.Constant(alt)
        elif k == "unicode" and isinstance(n, ast.Constant) and isinstance(n.value, str) and any(ord(c) > 127 for c in n.value):
            # another character outside ASCII (and, where it was one, outside Latin-1)
            hit = ast.Constant("".join((chr(ord(c) + 1) if ord(c) > 127 else c) for c in n.value))
        elif k == "unicode_form" and isinstance(n, ast.Constant) and isinstance(n.value, str) and any(ord(c) > 127 for c in n.value):
            # a different string with the same normal form: decomposed accents, compatibility
            # characters (micro sign / Greek mu, minus sign / hyphen-minus ...)
            import unicodedata

            alt = unicodedata.normalize("NFD", n.value)
            if alt == n.value:
                alt = unicodedata.normalize("NFKD", n.value)
            if alt == n.value:
                alt = n.value.translate({0x03bc: 0x00b5, 0x2212: 0x2013, 0x00e9: 0x00e8})
            if alt != n.value:
                hit = ast.Constant(alt)
        elif k == "const_type" and isinstance(n, ast.Constant) and type(n.value) is int:
            hit = ast.Constant(float(n.value)) if self.target % 3 == 0 else (
                ast.Constant(str(n.value)) if self.target % 3 == 1 else ast.Constant(bool(n.value)))
        elif k == "const_type" and isinstance(n, ast.Constant) and type(n.value) is float:
            hit = ast.Constant(int(n.value))
        elif k == "arg_order" and isinstance(n, ast.Tuple) and len(n.elts) >= 2:
            hit = ast.Tuple(list(reversed(n.elts)), n.ctx)
        elif k == "arg_order" and isinstance(n, ast.Call) and len(n.args) >= 2:
            hit = ast.Call(n.func, list(reversed(n.args)), n.keywords)
        elif k == "arg_order" and isinstance(n, (ast.BinOp,)) and not isinstance(n.op, ast.Add):
            hit = ast.BinOp(n.right, n.op, n.left)
        elif k == "arg_order" and isinstance(n, ast.Compare):
            hit = ast.Compare(n.comparators[0], n.ops, [n.left])
        elif k == "nesting_add" and isinstance(n, ast.Attribute):
            hit = ast.Attribute(ast.Attribute(n.value, "inner", ast.Load()), n.attr, n.ctx)
        elif k == "nesting_remove" and isinstance(n, ast.Attribute) and isinstance(n.value, ast.Attribute):
            hit = ast.Attribute(n.value.value, n.attr, n.ctx)
        elif k == "wrap" and isinstance(n, ast.Lambda):
            hit = ast.Lambda(n.args, ast.Tuple([n.body], ast.Load()))
        elif k == "param" and isinstance(n, ast.Lambda):
            old = n.args.args[0].arg

            class Rn(ast.NodeTransformer):
                def visit_Name(self, m):
                    return ast.Name(old + "_", m.ctx) if m.id == old else m

                def visit_arg(self, m):
                    return ast.arg(old + "_") if m.arg == old else m

            hit = Rn().visit(n)
        if hit is None:
            return n
        self.i += 1
        if self.i - 1 == self.target_index and not self.done:
            self.done = True
            return hit
        return n


EDITS = ["operator", "name", "const_value", "const_text", "const_type", "arg_order", "nesting_add",
         "nesting_remove", "wrap", "param", "stage_op", "drop_stage", "dup_stage", "unicode",
         "unicode_form"]


def edit_lambda(text, kind, r):
    tree = ast.parse(text, mode="eval")
    e = _Edit(kind, r.randrange(1000))
    e.target_index = 0
    # count candidates first
    probe = _Edit(kind, e.target)
    probe.target_index = -1
    probe.visit(ast.parse(text, mode="eval"))
    if probe.i == 0:
        return None
    e.target_index = r.randrange(probe.i)
    new = e.visit(tree)
    ast.fix_missing_locations(new)
    out = ast.unparse(new)
    return out if out != text else None


def neighbour(stages, kind, r):
    stages = [list(s) for s in stages]
    if kind == "stage_op":
        i = r.randrange(len(stages))
        stages[i][0] = {"Select": "SelectMany", "SelectMany": "Select", "Where": "Select"}[stages[i][0]]
        if stages[i][0] == "Select" and "and" in stages[i][1]:
            pass
        return stages
    if kind == "drop_stage":
        return stages[:-1] if len(stages) > 1 else None
    if kind == "dup_stage":
        return stages + [stages[-1]] if stages[-1][0] != "Where" or True else None
    i = r.randrange(len(stages))
    t = edit_lambda(stages[i][1], kind, r)
    if t is None:
        return None
    stages[i][1] = t
    return stages


# ---------------------------------------------------------------------------------------------
def generate(prop, seed, tier="quick", fault_free=False):
    st = Streams(mix(seed, "hash_cluster", prop))
    w, f, c = st.get("workload"), st.get("faults"), st.get("config")
    n_nodes = c.randint(2, 4)
    nodes = []
    for i in range(n_nodes):
        imp = list(IMPORTS)
        c.shuffle(imp)
        nodes.append({"hashseed": c.randrange(1, 2 ** 32 - 1) if not fault_free else 0,
                      "epoch": c.choice([0.0, 1.0e9, 1.7e9, 4.0e9]) + c.random() * 1e6,
                      "prehistory": 0 if fault_free else c.choice([0, 0, 3, 20, 120]),
                      "import_order": imp[:c.randint(0, len(imp))]})
    nodes.append({"hashseed": c.randrange(1, 2 ** 32 - 1), "epoch": 2.5e9, "prehistory": 1,
                  "import_order": [], "role": "rehash"})
    bases = [[list(s) for s in c.choice(BASES)] for _ in range(c.randint(6, 14))]
    ops = []
    bid = 0
    for b in bases:
        extra = w.choice([None, None, ["MetaData", {"m": 1}], ["AsAwkwardArray", ["c1"]],
                          ["MetaData", {}]])
        variants = [("base", b)]
        for kind in EDITS + ["const_type"]:
            if w.random() < 0.6:
                nb = neighbour(b, kind, w)
                if nb and all(nb != v for _, v in variants):
                    variants.append((kind, nb))
        for vk, stages in variants:
            full = stages + ([extra] if extra else [])
            post = w.choice([None, None, None, "fn_form", "simplify"])
            n_builds = w.randint(2, 4) if vk == "base" else w.choice([1, 1, 2])
            for _ in range(n_builds):
                op = {"op": "build", "id": bid, "node": w.randrange(n_nodes), "variant": vk,
                      "base": bases.index(b), "stages": full,
                      "mode": w.choice(["str", "str", "ast", "callable"]),
                      "layout": w.randrange(8), "dataset": w.randrange(3), "post": post,
                      "qmd": (not fault_free) and w.random() < 0.3,
                      "exec_before": (not fault_free) and w.random() < 0.15,
                      "want_pickle": (not fault_free) and w.random() < 0.4,
                      "hash_early": (not fault_free) and w.random() < 0.35,
                      # callable mode: constants are captured module globals, not literals
                      "lift": w.random() < 0.5}
                if op["mode"] == "callable" and not fault_free and w.random() < 0.5:
                    op["slot"] = w.randrange(2)  # a real file, rewritten by later builds
                if op["mode"] == "callable" and w.random() < 0.35:
                    op["as_def"] = True  # one-line function definitions instead of lambdas
                if not fault_free:
                    if f.random() < 0.25:
                        op["clock_jump"] = f.choice([1.0, 86400.0, 3.0e8])
                    if f.random() < 0.25:
                        op["annotate"] = True
                    if f.random() < 0.2:
                        op["relocate"] = True
                ops.append(op)
                bid += 1
    # a very long chain, hashed with different amounts of stack left (recursion limit of the
    # process, depth of the caller): no hash is acceptable, two different hashes are not
    if (not fault_free) and w.random() < 0.35:
        base = [list(s) for s in w.choice(BASES[:8])]
        rep_k = w.choice([60, 110, 150, 170, 220])
        for limit in (1000, 3000, 1000):
            ops.append({"op": "build", "id": bid, "node": w.randrange(n_nodes), "variant": "long_chain",
                        "base": -2, "stages": base, "repeat": rep_k, "mode": "str", "layout": 0,
                        "dataset": 0, "post": None, "qmd": False, "exec_before": False,
                        "want_pickle": False, "hash_early": False, "lift": False,
                        "limit": limit, "depths": w.choice([[0, 30, 120], [0, 10, 60, 250], [5, 0, 400],
                                              # overflow first, then enough stack (recovery)
                                              [400, 0, 5], [250, 60, 0, 250, 0]])})
            bid += 1
    # size ladder: the text a hash is computed from lands right below / at / above a power of
    # two (block and buffer sizes), with non-ASCII characters in it (characters != bytes); the
    # two members of each rung differ in the very last constant of the query only
    if w.random() < 0.45:
        target = w.choice([1024, 2048, 4096, 8192, 8192, 16384, 32768, 65536])
        node_l = w.randrange(n_nodes)
        wide = "\u03bc" * 24 + "\u20ac" * 8  # 32 characters, 72 bytes
        for d in range(0, 48, 3):
            for tail in (80, 81):
                stages = [["Select", "lambda e: e.col('PAD', '%s_\u0394R')" % wide],
                          ["Where", f"lambda c: c.m_\u03bc\u03bc > {tail}"]]
                ops.append({"op": "build", "id": bid, "node": node_l, "variant": f"ladder{tail}",
                            "base": -3, "stages": stages, "mode": "str", "layout": 0,
                            "dataset": 0, "post": None, "qmd": False, "exec_before": False,
                            "want_pickle": False, "hash_early": False, "lift": False,
                            "pad_to": target - d})
                bid += 1
    # constant family: values that are equal in Python but differ in type (1 == 1.0 == True),
    # captured one after the other in the same process, each with its written-out twin
    if w.random() < 0.7:
        v = w.choice([0, 1])
        tmpl = w.choice(["lambda e: e.x > {c}", "lambda e: e.w * {c} + e.x", "lambda e: (e.x, {c})"])
        fam = [repr(v), repr(float(v)), repr(bool(v))] + (["-0.0"] if v == 0 else [])
        w.shuffle(fam)
        node_a = w.randrange(n_nodes)
        for c_txt in fam:
            stages = [["Select", tmpl.format(c=c_txt)]]
            for mode, node in (("callable", node_a), ("str", w.randrange(n_nodes))):
                ops.append({"op": "build", "id": bid, "node": node, "variant": "const_family",
                            "base": -1, "stages": stages, "mode": mode, "layout": w.randrange(8),
                            "dataset": 0, "post": None, "qmd": False, "exec_before": False,
                            "want_pickle": False, "hash_early": False, "lift": True})
                bid += 1
    if not fault_free:
        # fault kinds added later draw from their own PRNG sub-stream (earlier draws unchanged)
        x = st.get("faults2")
        for nd in nodes:
            # object lifetime: inside the package, id() hands the numbers of dead objects to new
            # ones (sim/simid.py) - builds of one node follow each other in one process and
            # each query dies when the next one is built
            nd["simid"] = x.randrange(2 ** 31) if x.random() < 0.5 else None
            if x.random() < 0.06:
                nd["prehistory"] = x.choice([600, 1500])  # volume: a long-lived process
            # logging configured by the application of that node (root logger, formatting handler)
            nd["log_level"] = x.choice([None, None, "WARNING", "INFO", "DEBUG", "DEBUG"])
        # threads: some nodes hash a few of their queries once more, concurrently
        for ni, nd in enumerate(nodes[:-1]):
            if x.random() < 0.35:
                mine = [op for op in ops if op["op"] == "build" and op["node"] % (len(nodes) - 1) == ni
                        and op.get("variant") != "long_chain" and not op.get("pad_to")]
                if len(mine) >= 2:
                    nd["mt_seed"] = x.randrange(10 ** 6)
                    nd["mt_p"] = x.choice([0.05, 0.2, 0.5])
                    x.shuffle(mine)
                    for gi in range(min(3, len(mine) // 2)):
                        for op in mine[2 * gi:2 * gi + x.choice([2, 2, 3])]:
                            op["mt"] = gi
        for op in ops:
            if op.get("variant") not in ("long_chain",) and not op.get("pad_to") and x.random() < 0.1:
                # crash point: the first hash of this query is hit by an asynchronous exception
                # at its k-th line; the query is then hashed again as usual
                op["crash"] = [int(2 ** x.uniform(0, 5.5)), x.choice(["keyboard", "memory", "abort"])]
    return {"property": prop, "engine": "hash_cluster", "engine_version": ENGINE_VERSION,
            "seed": seed, "sched_seed": 0, "config": {"nodes": nodes}, "ops": ops}


NODE_SCRIPT = os.path.join(ROOT, "sim", "hash_node.py")


def run_node(node, builds):
    env = dict(os.environ)
    env["PYTHONHASHSEED"] = str(node["hashseed"])
    env.pop("VERIF_HASHSEED", None)
    job = {"src": func_adl_src(), "epoch": node["epoch"], "prehistory": node["prehistory"],
           "import_order": node["import_order"], "builds": builds, "simid": node.get("simid"),
           "log_level": node.get("log_level"), "mt_seed": node.get("mt_seed", 0),
           "mt_p": node.get("mt_p", 0.2)}
    flags = ["-O"] if sys.flags.optimize == 1 else []  # nodes run under this process's options
    p = subprocess.run([sys.executable] + flags + [NODE_SCRIPT], input=json.dumps(job), env=env,
                       capture_output=True, text=True, timeout=120)
    if p.returncode != 0:
        raise RuntimeError(f"hash node failed: {p.stderr[-800:]}")
    return json.loads(p.stdout)


def _how(a, b):
    "In which ways two builds of canon-equal queries differ."
    out = []
    if a["node"] != b["node"]:
        out.append("cross_process")
    for k, tag in (("mode", "other_supply_mode"), ("layout", "other_layout"),
                   ("dataset", "other_dataset"), ("qmd", "annotations"),
                   ("exec_before", "executed_before"), ("lift", "captured_constants"),
                   ("as_def", "def_function_supply")):
        if a.get(k) != b.get(k):
            out.append(tag)
    if a.get("rehash") != b.get("rehash"):
        out.append("rehash_after_restart")
    if a.get("hash_early") != b.get("hash_early"):
        out.append("hashed_earlier")
    if a.get("received") != b.get("received"):
        out.append("received_by_executor")
    return out


def execute(case):
    nodes = case["config"]["nodes"]
    stats = {}

    def stat(k, n=1):
        stats[k] = stats.get(k, 0) + n

    results = []  # (meta, hash, canon)
    viol = None
    per_node = {}
    for op in case["ops"]:
        if op["op"] == "build":
            per_node.setdefault(op["node"] % (len(nodes) - 1), []).append(op)
    pickles = []
    events = []
    for ni in sorted(per_node):
        builds = per_node[ni]
        res = run_node(nodes[ni], [{k: v for k, v in b.items() if k not in ("op", "node")} for b in builds])
        stat("nodes_started")
        by_id = {r["id"]: r for r in res}
        for b in builds:
            r = by_id[b["id"]]
            if "depth_hashes" in r:
                stat("fault_hashed_with_little_stack")
                hs = {h for h in r["depth_hashes"] if h is not None}
                if any(h is None for h in r["depth_hashes"]):
                    stat("hash_unobtainable_stack_exhausted")
                if len(hs) > 1 and viol is None:
                    viol = {"class": "C20/split", "detail": {"kind": "stack-depth", "build": _brief(b),
                                                              "hashes": r["depth_hashes"]}}
                if r.get("hash") is None:
                    events.append(f"{b['id']}|overflow")
                    continue
            if "error" in r:
                stat("build_errors")
                events.append(f"{b['id']}|error")
                if r.get("stage") == "hash" and viol is None:
                    viol = {"class": "C20/no-hash", "detail": {"kind": "calc_ast_hash raised",
                                                                "error": r["error"][:200],
                                                                "build": _brief(b)}}
                continue
            if "mt_hash" in r:
                stat("fault_hashed_concurrently_by_threads")
                if r.get("mt_switches"):
                    stat("thread_switches_inside_the_library", r["mt_switches"])
                if r["mt_hash"] != r["hash"] and viol is None:
                    viol = {"class": "C20/split", "detail": {
                        "kind": "threads", "build": _brief(b), "alone": r["hash"],
                        "with_another_thread_hashing": r["mt_hash"]}}
            if r.get("crashed") is not None:
                stat("fault_crash_point_armed")
                if r["crashed"]:
                    stat("fault_crash_point_fired")
            if r.get("simid_reused"):
                stat("fault_lifetime_id_reused", r["simid_reused"])
            meta = {**b, "node": ni}
            results.append((meta, r["hash"], r["canon"]))
            events.append(f"{b['id']}|{r['hash']}|{hashlib.sha1(r['canon'].encode()).hexdigest()[:10]}")
            stat("builds")
            if b.get("hash_early"):
                stat("fault_hashed_earlier_in_process")
            if b.get("slot") is not None and b.get("mode") == "callable":
                stat("fault_source_file_rewritten_and_reloaded")
            rv = r.get("received")
            if rv is not None:
                # the AST the executor received is one more build of whatever structure it has
                results.append(({**meta, "received": True}, rv["hash"], rv["canon"]))
                stat("executor_received_asts_hashed")
                if rv["pristine"] != rv["hash"] and viol is None:
                    viol = {"class": "C20/split", "detail": {"kind": "received-ast-vs-pristine-copy",
                                                              "build": _brief(b)}}
            for tag, h2 in r.get("again", {}).items():
                stat({"after_clock_jump": "fault_clock_jump", "after_attach": "fault_annotation_attach_detach",
                      "after_detach": "fault_annotation_detach", "after_relocate": "fault_relocate_positions",
                      "pristine_copy": "pristine_copy_checks",
                      "reread_from_own_text": "probe_reread_from_own_text"}[tag])
                if h2 != r["hash"] and viol is None:
                    viol = {"class": "C20/split", "detail": {"kind": tag, "build": _brief(b),
                                                              "hash_before": r["hash"], "hash_after": h2}}
            if "pickled" in r:
                pickles.append((meta, r["pickled"]))
    if pickles:
        rn = nodes[-1]
        res = run_node(rn, [{"id": i, "pickled": p} for i, (m, p) in enumerate(pickles)])
        stat("nodes_started")
        for r in res:
            m, _ = pickles[r["id"]]
            if "error" in r:
                stat("build_errors")
                continue
            results.append(({**m, "node": len(nodes) - 1, "rehash": True}, r["hash"], r["canon"]))
            events.append(f"re{r['id']}|{r['hash']}")
            stat("probe_rehash_after_restart")
    # the relation, over all results of all nodes
    by_canon, by_hash = {}, {}
    for meta, h, c in results:
        by_canon.setdefault(c, []).append((meta, h))
        by_hash.setdefault(h, []).append((meta, c))
    for c, lst in by_canon.items():
        for i in range(1, len(lst)):
            how = _how(lst[0][0], lst[i][0])
            for t in how:
                stat("probe_canon_equal_" + t)
            if how:
                stat("canon_equal_pairs_built_differently")
            if lst[i][1] != lst[0][1] and viol is None:
                viol = {"class": "C20/split", "detail": {
                    "kind": "+".join(how) or "same-build", "a": _brief(lst[0][0]), "b": _brief(lst[i][0]),
                    "hash_a": lst[0][1], "hash_b": lst[i][1]}}
    for h, lst in by_hash.items():
        canons = {c for _, c in lst}
        if len(canons) > 1 and viol is None:
            a = lst[0]
            b = next(x for x in lst if x[1] != a[1])
            viol = {"class": "C20/merge", "detail": {
                "kind": f"{a[0].get('variant')}~{b[0].get('variant')}", "a": _brief(a[0]), "b": _brief(b[0]),
                "hash": h}}
    # the same user-level query (same stages, same back-end pass, same dataset slot) must hash
    # alike however and wherever it was built: other process, supply mode, layout, constants
    # captured instead of written, annotations, executed before, hashed earlier
    by_spec = {}
    for meta, h, c in results:
        if meta.get("post") == "simplify" or meta.get("received"):
            continue  # fresh names depend on the node's counter; received ASTs are stripped
        key = json.dumps([meta.get("stages"), meta.get("repeat"), meta.get("post"),
                          meta.get("dataset", 0) % 3, meta.get("pad_to")])
        by_spec.setdefault(key, []).append((meta, h))
    for key, lst in by_spec.items():
        for i in range(1, len(lst)):
            stat("same_spec_pairs")
            if lst[i][0].get("lift") and lst[i][0].get("mode") == "callable":
                stat("probe_same_spec_captured_constants")
            if lst[i][0].get("variant") == "const_family":
                stat("probe_equal_valued_constants_of_other_type")
            if lst[i][1] != lst[0][1] and viol is None:
                how = _how(lst[0][0], lst[i][0])
                viol = {"class": "C20/split", "detail": {
                    "kind": "same-query:" + ("+".join(how) or "same-build"),
                    "a": _brief(lst[0][0]), "b": _brief(lst[i][0]),
                    "hash_a": lst[0][1], "hash_b": lst[i][1]}}
    # neighbour pairs: base vs its single-edit variants must be told apart iff canon differs
    bases = {}
    for meta, h, c in results:
        if meta.get("variant") == "base" and not meta.get("post"):
            bases.setdefault(meta["base"], (h, c))
    for meta, h, c in results:
        if meta.get("variant") not in (None, "base") and not meta.get("post") and meta["base"] in bases:
            if c != bases[meta["base"]][1]:
                stat("probe_neighbour_pairs")
                stat("neighbour_" + meta["variant"])
    stat("distinct_structures", len(by_canon))
    if viol is not None:
        viol["digest"] = hashlib.sha1((viol["class"] + json.dumps(viol["detail"], sort_keys=True)).encode()).hexdigest()[:12]
    spec = json.dumps([[o.get("stages"), o.get("mode"), o.get("variant")] for o in case["ops"]])
    nontrivial = bool(stats.get("canon_equal_pairs_built_differently") and stats.get("probe_neighbour_pairs"))
    return {
        "violation": viol,
        "stats": stats,
        "fingerprint": hashlib.sha1(spec.encode()).hexdigest()[:12],
        "state_fp": hashlib.sha1("".join(sorted(by_canon)).encode()).hexdigest()[:12],
        "log_digest": hashlib.sha256("\n".join(events).encode()).hexdigest()[:16],
        "nontrivial": nontrivial,
        "sim_time": 0.0, "steps": 0, "choice_points": 0, "n_ops": len(case["ops"]),
        "prefix4": hashlib.sha1(spec[:200].encode()).hexdigest()[:12],
    }


def _brief(b):
    return {k: b.get(k) for k in ("id", "node", "variant", "stages", "mode", "layout", "post", "qmd",
                                  "exec_before", "rehash", "dataset", "lift", "hash_early",
                                  "repeat", "limit", "depths", "pad_to")
            if b.get(k) is not None}


def op_simplifications(op):
    out = []
    for k in ("clock_jump", "annotate", "relocate", "qmd", "exec_before", "want_pickle", "post",
              "hash_early", "lift", "slot"):
        if op.get(k):
            o = dict(op)
            o[k] = None if k in ("post", "clock_jump") else False
            out.append(o)
    if op.get("mode") != "str":
        out.append({**op, "mode": "str"})
    return out


def signature(case, viol):
    return f"{viol['class']} :: {viol['detail'].get('kind')}"


def case_simplifications(case):
    "Drop whole nodes' worth of builds that are not needed."
    return []
