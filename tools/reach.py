#!/venv/bin/python
"""Reach of the workloads over func_adl's own code: line/branch coverage of the tree under test
while N generated runs per property execute in this process (no fork isolation, forest and
simplifier engines; the hash cluster runs its nodes in child interpreters and is measured through
COVERAGE_PROCESS_START-free means: its builds are replayed in-process through hash_node.build).

This is a *measurement*, not a check: it says which statements of the anchored files no run ever
executed, i.e. where a clean batch says nothing.  Output: evidence/reach.json + a text summary.
Usage: tools/reach.py [--runs N] [--tier quick|thorough] [--show FILE]
"""
import json
import os
import sys

ROOT = os.path.dirname(os.path.dirname(os.path.abspath(__file__)))
sys.path.insert(0, ROOT)
os.environ.setdefault("PYTHONHASHSEED", "0")
from sim import core  # noqa: E402

import coverage  # noqa: E402

_SRC = os.environ.get("FUNC_ADL_SRC", "/repo")
_COV = coverage.Coverage(branch=True, include=[os.path.join(_SRC, "func_adl", "*")],
                         data_file=None)
_COV.start()  # before anything imports func_adl, so that definitions count as executed
core.bootstrap()


def main():
    a = sys.argv[1:]
    runs = int(a[a.index("--runs") + 1]) if "--runs" in a else 400
    tier = a[a.index("--tier") + 1] if "--tier" in a else "quick"
    show = a[a.index("--show") + 1] if "--show" in a else None
    src, cov = _SRC, _COV
    from sim import forest, simplifier_node, hash_cluster, hash_node  # noqa: E402

    simplifier_node.ISOLATE = False
    per_prop = {}
    for prop, eng in (("C11", forest), ("C12", forest), ("C16", forest), ("C04", forest),
                      ("C02", simplifier_node)):
        n_ok = 0
        for i in range(runs):
            seed = core.mix(core.env_seed(), "reach", prop, i)
            case = eng.generate(prop, seed, tier, fault_free=(i % 4 == 0))
            try:
                if eng is simplifier_node:
                    # epochs in-process (the checks fork one process per epoch; here the global
                    # counter simply carries over, which is fine for a reach measurement)
                    state = None
                    epochs = [[]]
                    for op in case["ops"]:
                        if op["op"] == "restart" and epochs[-1]:
                            epochs.append([])
                        epochs[-1].append(op)
                    for ops in epochs:
                        state = eng.run_epoch(case, ops, state)
                    r = state
                else:
                    r = eng.execute(case)
                n_ok += 1
                if r.get("violation"):
                    print("note: violation during reach run", prop, seed, r["violation"]["class"])
            except BaseException as ex:  # measurement only
                print("note:", prop, seed, type(ex).__name__, str(ex)[:100])
        per_prop[prop] = n_ok
    # C20: replay the builds of generated cluster cases in this process
    import func_adl
    from func_adl import EventDataset
    from func_adl.ast.ast_hash import calc_ast_hash
    from func_adl.ast.func_adl_ast_utils import change_extension_functions_to_calls
    from func_adl.ast.function_simplifier import simplify_chained_calls

    class DS(EventDataset):
        def __init__(self):
            super().__init__()
            self.seen = []

        async def execute_result_async(self, a, title=None):
            self.seen.append(a)
            return a

    n20 = 0
    for i in range(max(20, runs // 10)):
        seed = core.mix(core.env_seed(), "reach", "C20", i)
        case = hash_cluster.generate("C20", seed, tier)
        dss = [DS() for _ in range(3)]
        for b in case["ops"]:
            if True:
                if b["op"] != "build" or "from" in b or "pickled" in b or b.get("depths"):
                    continue
                try:
                    calc_ast_hash(hash_node.build(b, dss, func_adl, simplify_chained_calls,
                                                  change_extension_functions_to_calls))
                    n20 += 1
                except Exception:
                    pass
    per_prop["C20"] = n20
    cov.stop()
    out = {"runs_per_property": per_prop, "tier": tier, "tree": src, "files": {}}
    tot_s = tot_m = 0
    for f in sorted(cov.get_data().measured_files()):
        _, stmts, _, missing, _ = cov.analysis2(f)
        an = cov._analyze(f)
        rel = os.path.relpath(f, src)
        nb = an.numbers
        out["files"][rel] = {"statements": len(stmts), "missed": len(missing),
                             "branches": nb.n_branches, "partial_branches": nb.n_partial_branches,
                             "missed_lines": missing}
        tot_s += len(stmts)
        tot_m += len(missing)
        print(f"{rel:45s} stmts {len(stmts):4d} missed {len(missing):4d} "
              f"branches {nb.n_branches:4d} partial {nb.n_partial_branches:3d}")
        if show and (show == "all" or rel.endswith(show)):
            lines = open(f).read().splitlines()
            for ln in missing:
                print(f"   {ln:4d}: {lines[ln - 1]}")
    out["total"] = {"statements": tot_s, "missed": tot_m}
    print(f"TOTAL statements {tot_s} missed {tot_m} ({100 - 100 * tot_m / max(tot_s, 1):.1f}% reached)")
    if "FUNC_ADL_SRC" not in os.environ:
        os.makedirs(os.path.join(ROOT, "evidence"), exist_ok=True)
        json.dump(out, open(os.path.join(ROOT, "evidence", "reach.json"), "w"), indent=1)


if __name__ == "__main__":
    main()
