#!/venv/bin/python
"""Evaluate seeded changes (written by independent sub-agents) kept under /verif/seeded/<id>/.

For each: make a scratch git worktree of /repo under $TMPDIR, apply patch.diff, confirm the
repository's own suite still passes there, confirm the demonstration passes on /repo and fails on
the scratch tree, then run the owning check (quick tier unless --thorough) against the scratch
tree via FUNC_ADL_SRC and record whether it raised a VIOLATION.  The worktree is removed.
`--in-repo` instead applies the patch to /repo itself (git apply), runs the check the way the
harness does, and undoes it (git checkout -- .).
Usage: tools/seeded.py [--thorough] [--in-repo] [id ...]
"""
import json
import os
import subprocess
import sys
import tempfile
import time

ROOT = os.path.dirname(os.path.dirname(os.path.abspath(__file__)))
PY = "/venv/bin/python"


def sh(cmd, **kw):
    return subprocess.run(cmd, capture_output=True, text=True, **kw)


def evaluate(sid, tier, in_repo):
    d = os.path.join(ROOT, "seeded", sid)
    meta = json.load(open(os.path.join(d, "meta.json")))
    prop = meta["property"]
    patch = os.path.join(d, "patch.diff")
    demo = os.path.join(d, "demo.py")
    base = os.environ.get("TMPDIR") or tempfile.gettempdir()
    wt = tempfile.mkdtemp(prefix=f"verif-seed-{sid}-", dir=base)
    os.rmdir(wt)
    res = {"id": sid, "property": prop}
    try:
        p = sh(["git", "-C", "/repo", "worktree", "add", "--detach", wt, "HEAD"])
        if p.returncode:
            raise RuntimeError(p.stderr)
        p = sh(["git", "-C", wt, "apply", patch])
        res["patch_applies"] = p.returncode == 0
        if p.returncode:
            res["apply_error"] = p.stderr[-300:]
            return res
        p = sh([PY, "-m", "pytest", "-q", "-p", "no:cacheprovider"], cwd=wt, timeout=900)
        res["suite_passes"] = p.returncode == 0
        res["suite_tail"] = (p.stdout.strip().splitlines() or [""])[-1][:120]
        res["demo_on_repo_exit"] = sh([PY, demo, "/repo"], timeout=600).returncode
        res["demo_on_patched_exit"] = sh([PY, demo, wt], timeout=600).returncode
        script = os.path.join(ROOT, "checks", prop.lower() + ".py")
        t0 = time.time()
        if in_repo:
            a = sh(["git", "-C", "/repo", "apply", patch])
            try:
                p = sh([PY, script, "--tier", tier, "--no-evidence"], cwd=ROOT, timeout=3600)
            finally:
                sh(["git", "-C", "/repo", "checkout", "--", "."])
            res["mode"] = "applied to /repo" + ("" if a.returncode == 0 else " (apply failed)")
        else:
            env = dict(os.environ, FUNC_ADL_SRC=wt)
            if not meta.get("needs_process_env") and not sid.startswith("s15-"):
                # the process-environment slices matter only to the seeds of round 15
                env["VERIF_NO_SLICES"] = "1"
            p = sh([PY, script, "--tier", tier, "--no-evidence"], cwd=ROOT, env=env, timeout=3600)
            res["mode"] = "scratch worktree via FUNC_ADL_SRC"
        res["check_tier"] = tier
        res["check_exit"] = p.returncode
        res["check_wall_s"] = round(time.time() - t0, 1)
        lines = p.stdout.splitlines()
        res["violation_lines"] = [l for l in lines if l.startswith("VIOLATION")]
        res["classes"] = [l.strip()[:300] for l in lines if l.strip().startswith("class=")]
        res["caught"] = p.returncode == 1 and bool(res["violation_lines"])
        if p.returncode not in (0, 1):
            res["output_tail"] = (p.stdout + p.stderr)[-800:]
        return res
    finally:
        sh(["git", "-C", "/repo", "worktree", "remove", "--force", wt])
        sh(["git", "-C", "/repo", "worktree", "prune"])


def main():
    tier = "thorough" if "--thorough" in sys.argv else "quick"
    in_repo = "--in-repo" in sys.argv
    ids = [a for a in sys.argv[1:] if not a.startswith("--")] or sorted(
        x for x in os.listdir(os.path.join(ROOT, "seeded"))
        if os.path.isdir(os.path.join(ROOT, "seeded", x)) and not x.startswith("_"))
    for sid in ids:
        r = evaluate(sid, tier, in_repo)
        print(json.dumps(r, indent=1), flush=True)
        mp = os.path.join(ROOT, "seeded", sid, "meta.json")
        meta = json.load(open(mp))
        meta.setdefault("verif_runs", []).append(r)
        json.dump(meta, open(mp, "w"), indent=1)


if __name__ == "__main__":
    main()
