#!/venv/bin/python
"""Regenerate the tables of DESIGN.md section 9.6/9.7 (between BEGIN/END markers) from
seeded/*/meta.json and mutants/results.json, so that the document says what was measured."""
import glob
import json
import os
import re

ROOT = os.path.dirname(os.path.dirname(os.path.abspath(__file__)))


def seeded_table():
    rows = ["| id | property | what the change does | needs, to manifest | suite | demo (repo / patched) | caught by (quick tier) |",
            "|---|---|---|---|---|---|---|"]
    for f in sorted(glob.glob(os.path.join(ROOT, "seeded", "s*", "meta.json"))):
        m = json.load(open(f))
        runs = m.get("verif_runs", [])
        last = runs[-1] if runs else {}
        cls = sorted({re.sub(r"^class=(\S+).*", r"\1", c) for c in last.get("classes", [])})
        fam = sorted({"/".join(c.split("/")[:2]) for c in cls})
        rows.append("| %s | %s | %s | %s | %s | %s / %s | %s |" % (
            os.path.basename(os.path.dirname(f)), m.get("property"),
            str(m.get("summary", "")).replace("|", "/").replace("\n", " ")[:230],
            str(m.get("needs_to_manifest", "")).replace("|", "/").replace("\n", " ")[:200],
            "passes" if last.get("suite_passes") else "FAILS",
            last.get("demo_on_repo_exit"), last.get("demo_on_patched_exit"),
            (", ".join(fam) + f" ({last.get('check_wall_s')} s)") if last.get("caught") else "**missed**"))
    return "\n".join(rows)


def mutant_table():
    p = os.path.join(ROOT, "mutants", "results.json")
    if not os.path.exists(p):
        return "(not run yet)"
    rows = ["| mutant | property | what | own suite | check |", "|---|---|---|---|---|"]
    for r in json.load(open(p)):
        fam = sorted({"/".join(c.replace("class=", "").split("/")[:2]) for c in r.get("classes", [])})
        rows.append("| %s | %s | %s | %s | %s |" % (
            r["id"], r["property"], r["what"].replace("|", "/"),
            "passes" if r.get("suite_passes") else "fails (suite notices)",
            (", ".join(fam) + f" ({r['check_wall_s']} s)") if r["caught"] else "**missed in quick tier**"))
    return "\n".join(rows)


def main():
    p = os.path.join(ROOT, "DESIGN.md")
    s = open(p).read()
    for tag, fn in (("SEEDED", seeded_table), ("MUTANTS", mutant_table)):
        s = re.sub(r"(<!-- BEGIN:%s -->\n).*?(<!-- END:%s -->)" % (tag, tag),
                   lambda m: m.group(1) + fn() + "\n" + m.group(2), s, flags=re.S)
    open(p, "w").write(s)


if __name__ == "__main__":
    main()
