#!/venv/bin/python
"""Full determinism protocol (DESIGN 2.8): for every claimed property run N seeds four times -
default hash seed with 16 workers, another PYTHONHASHSEED with 16 workers, 3 workers with the
seeds submitted in reverse order, and 5 workers under a third hash seed - each in a fresh
interpreter, and compare the SHA-256 digests of the full event logs.  Writes
evidence/selftest.json.  Usage: tools/selftest.py [N_forest [N_c02 [N_c20]]]
"""
import json
import os
import subprocess
import sys
import time

ROOT = os.path.dirname(os.path.dirname(os.path.abspath(__file__)))
PY = "/venv/bin/python"


def digests(prop, n, hashseed, workers):
    env = dict(os.environ, VERIF_HASHSEED=str(hashseed), PYTHONHASHSEED=str(hashseed),
               VERIF_WORKERS=str(workers))
    p = subprocess.run([PY, os.path.join(ROOT, "checks", prop.lower() + ".py"), "--digests", f"n={n}"],
                       env=env, capture_output=True, text=True, timeout=3600)
    if p.returncode != 0:
        raise SystemExit(f"{prop}: digest run failed: {p.stderr[-600:]}")
    return json.loads(p.stdout.strip().splitlines()[-1])


def main():
    nf = int(sys.argv[1]) if len(sys.argv) > 1 else 500
    n2 = int(sys.argv[2]) if len(sys.argv) > 2 else 150
    n20 = int(sys.argv[3]) if len(sys.argv) > 3 else 24
    out = {}
    bad = False
    for prop, n in (("C11", nf), ("C12", nf), ("C16", nf), ("C04", nf), ("C02", n2), ("C20", n20)):
        t0 = time.time()
        runs = [digests(prop, n, 0, 16), digests(prop, n, 4242, 16), digests(prop, n, 0, 3),
                digests(prop, n, 987654321, 5)]
        mism = [s for s in runs[0] if any(r[s] != runs[0][s] for r in runs[1:])]
        out[prop] = {"seeds": n, "executions_per_seed": 4, "configurations": [
            "PYTHONHASHSEED=0 workers=16", "PYTHONHASHSEED=4242 workers=16",
            "PYTHONHASHSEED=0 workers=3 reversed order", "PYTHONHASHSEED=987654321 workers=5 reversed order"],
            "mismatching_seeds": mism[:10], "wall_s": round(time.time() - t0, 1)}
        print(prop, out[prop], flush=True)
        bad = bad or bool(mism)
    with open(os.path.join(ROOT, "evidence", "selftest.json"), "w") as f:
        json.dump(out, f, indent=1)
    return 1 if bad else 0


if __name__ == "__main__":
    sys.exit(main())
