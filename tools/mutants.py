#!/venv/bin/python
"""Sensitivity corpus: hand-made regressions of func_adl, each a small edit that compiles; for
each one a scratch copy of /repo's working tree is made under $TMPDIR, the edit applied, the
repository's own test suite run on it (recorded: a mutant the suite already catches says little),
and the owning check run against it with FUNC_ADL_SRC; the check must exit 1 with a VIOLATION.
The scratch copy is removed afterwards.  Usage: tools/mutants.py [id ...] [--no-tests]
"""
import json
import os
import shutil
import subprocess
import sys
import tempfile
import time

ROOT = os.path.dirname(os.path.dirname(os.path.abspath(__file__)))
PY = "/venv/bin/python"

M = []


def mut(id, prop, file, old, new, what):
    M.append(dict(id=id, prop=prop, file=file, old=old, new=new, what=what))


OS = "func_adl/object_stream.py"
MD = "func_adl/ast/meta_data.py"
UA = "func_adl/util_ast.py"
FS = "func_adl/ast/function_simplifier.py"
AH = "func_adl/ast/ast_hash.py"

# ---- C11 -------------------------------------------------------------------------------------
mut("c16-qmd-nocopy", "C16", OS,
    "new_self = self.clone_with_new_ast(copy.copy(base_ast), self.item_type)",
    "new_self = self.clone_with_new_ast(base_ast, self.item_type)",
    "QMetaData attaches the dictionary to the un-copied node (parent sees the child's metadata)")
mut("c11-cleaner-inplace", "C11", MD,
    "        new_n = copy.copy(n)\n",
    "        new_n = n\n",
    "empty-MetaData cleaner edits the spine in place again (reverts the F1 repair)")
mut("c11-ast-lambda-shared", "C11", OS,
    "    if isinstance(func, ast.AST) and len(known_types) == 0:\n        a = copy_ast(a)\n",
    "",
    "AST-supplied lambda no longer copied on entry (reverts the F2 repair)")
mut("c11-metadata-mutates-parent", "C11", OS,
    '''        return self.clone_with_new_ast(
            function_call("MetaData", [self._q_ast, as_ast(metadata)]), self.item_type
        )''',
    '''        if len(metadata) == 0 and isinstance(self._q_ast, ast.Call) and len(self._q_ast.args) == 2:
            # "optimisation": an empty MetaData does not need a node of its own
            self._q_ast.args[0] = function_call("MetaData", [self._q_ast.args[0], as_ast(metadata)])
            return self.clone_with_new_ast(self._q_ast, self.item_type)
        return self.clone_with_new_ast(
            function_call("MetaData", [self._q_ast, as_ast(metadata)]), self.item_type
        )''',
    "MetaData({}) splices the wrapper into the parent's node in place")
mut("c11-terminal-cols-shared", "C11", OS,
    '''        return ObjectStream[ReturnedDataPlaceHolder](
            function_call("ResultAwkwardArray", [self._q_ast, as_ast(columns)])
        )''',
    '''        r = ObjectStream[ReturnedDataPlaceHolder](
            function_call("ResultAwkwardArray", [self._q_ast, as_ast(columns)])
        )
        self._item_type = ReturnedDataPlaceHolder
        return r''',
    "AsAwkwardArray changes the item type of the stream it was called on")
# ---- C12 -------------------------------------------------------------------------------------
mut("c12-executor-memo", "C12", OS,
    '''        node = self._q_ast
        while not hasattr(node, executor_attr_name):
            node = node.args[0]  # type: ignore

        # Extract the executor from this reference.
        return getattr(node, executor_attr_name)''',
    '''        cached = getattr(ObjectStream, "_cached_executor", None)
        if cached is not None:
            return cached
        node = self._q_ast
        while not hasattr(node, executor_attr_name):
            node = node.args[0]  # type: ignore

        # Extract the executor from this reference.
        ObjectStream._cached_executor = getattr(node, executor_attr_name)
        return ObjectStream._cached_executor''',
    "executor looked up once and memoised on the class (second dataset routed to the first)")
mut("c12-result-cache", "C12", OS,
    "        return await exe(remove_empty_metadata(self._q_ast), title)",
    '''        cache = self.__dict__.setdefault("_result_cache", {})
        key = (id(exe), title is None)
        if key not in cache:
            cache[key] = await exe(remove_empty_metadata(self._q_ast), title)
        return cache[key]''',
    "result cached on the stream object: a second value() of the same stream does not reach the executor")
mut("c12-falsy-result", "C12", OS,
    "        return await exe(remove_empty_metadata(self._q_ast), title)",
    '''        r = await exe(remove_empty_metadata(self._q_ast), title)
        return r if r else None''',
    "falsy executor results (0, []) are turned into None")
mut("c12-wrap-exception", "C12", OS,
    "        return await exe(remove_empty_metadata(self._q_ast), title)",
    '''        try:
            return await exe(remove_empty_metadata(self._q_ast), title)
        except KeyError as e:
            raise KeyError(*e.args) from e''',
    "KeyError raised by the executor is re-created instead of propagated")
mut("c12-strip-all-metadata", "C12", MD,
    "        return isinstance(d, dict) and len(d) == 0",
    "        return isinstance(d, dict) and len(d) <= 1 and 'x' not in d",
    "cleaner also removes one-key MetaData wrappers (except key x): more than empty wrappers stripped")
mut("c12-retry-on-timeout", "C12", OS,
    "        return await exe(remove_empty_metadata(self._q_ast), title)",
    '''        import asyncio

        a = remove_empty_metadata(self._q_ast)
        try:
            return await exe(a, title)
        except RuntimeError:
            # "transient" back end error: try once more
            await asyncio.sleep(0)
            return await exe(a, title)''',
    "executor retried once after RuntimeError: one value() call, two executor invocations")
mut("c12-two-roots-accepted", "C12", "func_adl/event_dataset.py",
    '''            if self.ds is not None:
                raise Exception("AST Query has more than one EventDataset in it!")
            self.ds = node''',
    '''            if self.ds is None:
                self.ds = node''',
    "find_EventDataset returns the first root instead of rejecting a query with several roots")
# ---- C16 -------------------------------------------------------------------------------------
mut("c16-overwrite", "C16", OS,
    "            new_self.query_ast._q_metadata = {**old_md, **q_metadata}  # type: ignore",
    "            new_self.query_ast._q_metadata = q_metadata  # type: ignore",
    "consecutive QMetaData overwrite (reverts the F3 repair)")
mut("c16-shared-dict", "C16", OS,
    "            new_self.query_ast._q_metadata = {**old_md, **q_metadata}  # type: ignore",
    "            old_md.update(q_metadata)\n            new_self.query_ast._q_metadata = old_md  # type: ignore",
    "QMetaData updates the dictionary it found on the node: a sibling built from the same parent sees the value")
mut("c16-deepest-wins", "C16", MD,
    '''            if not found:
                super().generic_visit(node)''',
    '''            super().generic_visit(node)''',
    "lookup keeps searching below a node that defines the key: the oldest value wins")
mut("c16-sent-to-backend", "C16", OS,
    '''            new_self = self.clone_with_new_ast(copy.copy(base_ast), self.item_type)''',
    '''            new_self = self.clone_with_new_ast(copy.copy(base_ast), self.item_type)
            if "k2" in q_metadata:
                new_self = new_self.MetaData({"q": str(q_metadata["k2"])})''',
    "one query-metadata key is also emitted as a MetaData node (reaches the back end)")
mut("c16-skip-equal", "C16", OS,
    '''            elif found_md != v:''',
    '''            elif str(found_md) != str(v):''',
    "a new value that prints like the old one (1 vs '1'... [1, 2]) is not stored")
# ---- C04 -------------------------------------------------------------------------------------
mut("c04-lambda-cache", "C04", UA,
    '''        # Since this is a function in python, we can look for lambda capture.
        call_args = global_getclosurevars(ast_source)
        captured = _rewrite_captured_vars(call_args).visit(src_ast)''',
    '''        # Since this is a function in python, we can look for lambda capture.
        key = (ast_source.__code__.co_filename, ast_source.__code__.co_firstlineno, caller_name)
        if key in _parsed_cache:
            return copy.deepcopy(_parsed_cache[key])
        call_args = global_getclosurevars(ast_source)
        captured = _rewrite_captured_vars(call_args).visit(src_ast)
        _parsed_cache[key] = copy.deepcopy(captured)''',
    "parsed lambda cached by (file, line): the first captured values are frozen for later calls")
mut("c04-scope-leak", "C04", UA,
    '''        self._ignore_stack.append([a.arg for a in node.args.args])
        v = super().generic_visit(node)
        self._ignore_stack.pop()
        return v''',
    '''        self._ignore_stack.append([a.arg for a in node.args.args])
        v = super().generic_visit(node)
        return v''',
    "lambda parameters stay on the ignore stack after the lambda ends (name captured afterwards is not replaced)")
mut("c04-comprehension", "C04", UA,
    "    visit_ListComp = _visit_comprehension\n", "",
    "list-comprehension targets no longer shadow captured names (reverts the F4 repair for lists)")
mut("c04-globals-win", "C04", UA,
    '''        self._lookup_dict: Dict[str, Any] = dict(cv.globals)
        self._lookup_dict.update(cv.nonlocals)''',
    '''        self._lookup_dict: Dict[str, Any] = dict(cv.nonlocals)
        self._lookup_dict.update(cv.globals)''',
    "module globals hide enclosing-function variables (reverts the F8 repair)")
mut("c04-tuple-gate", "C04", UA,
    "g_legal_capture_types = (str, int, float, bool, complex, str, bytes, ModuleType)",
    "g_legal_capture_types = (str, int, float, bool, complex, str, bytes, ModuleType, tuple)",
    "tuples pass the transportable-constant gate")
mut("c04-live-cell", "C04", UA,
    '''                # like that (as the object it is: an attribute may still be read off it).
                return ast.Constant(value=v, kind=None)''',
    '''                # like that (as the object it is: an attribute may still be read off it).
                if isinstance(v, float) and v == v and abs(v) < 1e300 and v == int(v):
                    return ast.Constant(value=int(v), kind=None)
                return ast.Constant(value=v, kind=None)''',
    "whole-number floats are captured as ints (value survives, type does not: 40.0 -> 40)")
# ---- C02 -------------------------------------------------------------------------------------
mut("c02-no-reserve", "C02", FS,
    "            reserve_arg_names(node)\n", "            pass\n",
    "fresh names ignore arg_N names already in the query (reverts the F5 repair)")
mut("c02-smsm-unvisited", "C02", FS,
    'new_select = function_call("SelectMany", [captured_body, self.visit(func_g)])',
    'new_select = function_call("SelectMany", [captured_body, func_g])',
    "SelectMany-of-SelectMany splices the lambda unvisited (reverts the F6 repair)")
mut("c02-where-or", "C02", FS,
    "arg, ast.BoolOp(ast.And(), [lambda_call(arg, func_f), lambda_call(arg, func_g)])",
    "arg, ast.BoolOp(ast.And(), [lambda_call(arg, func_g), lambda_call(arg, func_f)])",
    "Where-of-Where evaluates the later filter first (a filter that raises on rejected items now raises)")
mut("c02-shared-use", "C02", FS,
    "        return copy.deepcopy(replacement)",
    "        return replacement",
    "every use of a substituted argument shares one ast object again (reverts the F7 repair)")
mut("c02-no-scope", "C02", FS,
    """        if any(a.arg in in_flight for a in node.args.args):
            node = make_args_unique(node)
""",
    "",
    "nested lambdas no longer renamed when they would capture a substituted name (half of the F9 repair)")
mut("c02-no-shadow", "C02", FS,
    """            for a in node.args.args:
                self._arg_stack.define_name(a.arg, ast.Name(a.arg, ast.Load()))
""",
    "",
    "a nested lambda's own parameters no longer hide the outer substitution (other half of the F9 repair)")
# ---- C20 -------------------------------------------------------------------------------------
H = '    return hashlib.md5(ast.dump(a).encode("utf-8")).hexdigest()'
mut("c20-attributes", "C20", AH, H,
    '    return hashlib.md5(ast.dump(a, include_attributes=True).encode("utf-8")).hexdigest()',
    "hash includes source positions")
mut("c20-pyhash", "C20", AH, H,
    '    return hashlib.md5(str(hash(ast.dump(a))).encode()).hexdigest()',
    "hash goes through Python's salted hash(): differs between processes")
mut("c20-qmd", "C20", AH, H,
    '    return hashlib.md5((ast.dump(a) + repr(sorted(getattr(a, "_q_metadata", {}).items()))).encode("utf-8")).hexdigest()',
    "query metadata of the top node is mixed into the hash")
mut("c20-day-salt", "C20", AH, H,
    '    import time\n\n    return hashlib.md5((ast.dump(a) + str(int(time.time() // 86400 // 365))).encode("utf-8")).hexdigest()',
    "hash salted with the current year")
mut("c20-constant-type", "C20", AH, H,
    '    return hashlib.md5(ast.dump(a).replace("value=1.0", "value=1").replace("value=2.0", "value=2").encode("utf-8")).hexdigest()',
    "1.0 and 1 hash alike (constant type ignored)")
mut("c20-id", "C20", AH, H,
    '    return hashlib.md5((ast.dump(a) + (str(id(a) % 3) if hasattr(a, "_q_metadata") else "")).encode("utf-8")).hexdigest()',
    "object address of an annotated top node leaks into the hash")
mut("c20-latin1", "C20", AH, H,
    '    return hashlib.md5(ast.dump(a).encode("latin-1", errors="replace")).hexdigest()',
    "characters above U+00FF are all replaced by '?' before hashing (different names collide)")
mut("c20-ascii-ignore", "C20", AH, H,
    '    return hashlib.md5(ast.dump(a).encode("ascii", errors="ignore")).hexdigest()',
    "non-ASCII characters are dropped before hashing")


PRELUDE = {UA: ("def parse_as_ast(", "_parsed_cache: Dict[Any, Any] = {}\n\n\ndef parse_as_ast(")}


def scratch_copy(tag):
    base = os.environ.get("TMPDIR") or tempfile.gettempdir()
    d = tempfile.mkdtemp(prefix=f"verif-mut-{tag}-", dir=base)
    for name in ("func_adl", "tests", "pytest.ini", "pyproject.toml"):
        src = os.path.join("/repo", name)
        if os.path.isdir(src):
            shutil.copytree(src, os.path.join(d, name), ignore=shutil.ignore_patterns("__pycache__"))
        elif os.path.exists(src):
            shutil.copy(src, d)
    return d


def apply(m, d):
    p = os.path.join(d, m["file"])
    s = open(p).read()
    if m["old"] not in s:
        raise SystemExit(f"mutant {m['id']}: anchor text not found in {m['file']}")
    s = s.replace(m["old"], m["new"], 1)
    if m["id"] == "c04-lambda-cache":
        a, b = PRELUDE[UA]
        s = s.replace(a, b, 1)
    open(p, "w").write(s)


def run_one(m, tests=True, tier="quick"):
    d = scratch_copy(m["id"])
    try:
        apply(m, d)
        rec = {"id": m["id"], "property": m["prop"], "what": m["what"]}
        if tests:
            p = subprocess.run([PY, "-m", "pytest", "-q", "-x", "-p", "no:cacheprovider"], cwd=d,
                               capture_output=True, text=True, timeout=600)
            rec["suite_passes"] = p.returncode == 0
            rec["suite_tail"] = p.stdout.strip().splitlines()[-1][:100] if p.stdout.strip() else ""
        env = dict(os.environ)
        env["FUNC_ADL_SRC"] = d
        t0 = time.time()
        p = subprocess.run([PY, os.path.join(ROOT, "checks", m["prop"].lower() + ".py"), "--tier", tier,
                            "--no-evidence"], env=env, capture_output=True, text=True, timeout=1800,
                           cwd=ROOT)
        rec["check_exit"] = p.returncode
        rec["check_wall_s"] = round(time.time() - t0, 1)
        v = [l for l in p.stdout.splitlines() if l.startswith("VIOLATION")]
        rec["violation_lines"] = len(v)
        cls = [l.strip().split(" ")[0] for l in p.stdout.splitlines() if l.strip().startswith("class=")]
        rec["classes"] = cls
        rec["caught"] = p.returncode == 1 and len(v) > 0
        if p.returncode not in (0, 1):
            rec["output_tail"] = (p.stdout + p.stderr)[-600:]
        return rec
    finally:
        shutil.rmtree(d, ignore_errors=True)


# ---- re-anchored after the repairs F19-F27 changed the text around these places ----------------
_VALUE_TAIL = """        result = exe(copy_ast(remove_empty_metadata(self._q_ast)), title)
        # An executor "can be synchronous or coroutine": only the latter hands back something
        # to wait for.
        if inspect.isawaitable(result):
            result = await result
        return result
"""


def _reanchor(id, old, new):
    for m in M:
        if m["id"] == id:
            m["old"], m["new"] = old, new
            return
    raise KeyError(id)


_reanchor("c12-result-cache", _VALUE_TAIL, """        cache = self.__dict__.setdefault("_result_cache", {})
        key = (id(exe), title is None)
        if key not in cache:
            result = exe(copy_ast(remove_empty_metadata(self._q_ast)), title)
            if inspect.isawaitable(result):
                result = await result
            cache[key] = result
        return cache[key]
""")
_reanchor("c12-falsy-result", _VALUE_TAIL, _VALUE_TAIL.replace(
    "        return result\n", "        return result if result else None\n"))
_reanchor("c12-wrap-exception", _VALUE_TAIL, """        try:
            result = exe(copy_ast(remove_empty_metadata(self._q_ast)), title)
            if inspect.isawaitable(result):
                result = await result
            return result
        except KeyError as e:
            raise KeyError(*e.args) from e
""")
_reanchor("c12-retry-on-timeout", _VALUE_TAIL, """        import asyncio

        a = copy_ast(remove_empty_metadata(self._q_ast))
        try:
            result = exe(a, title)
            if inspect.isawaitable(result):
                result = await result
            return result
        except RuntimeError:
            # "transient" back end error: try once more
            await asyncio.sleep(0)
            result = exe(a, title)
            if inspect.isawaitable(result):
                result = await result
            return result
""")
_reanchor("c12-strip-all-metadata",
          "        return isinstance(d, ast.Dict) and len(d.keys) == 0\n",
          "        return isinstance(d, ast.Dict) and len(d.keys) <= 1 and not any(\n"
          "            getattr(k, 'value', None) == 'x' for k in d.keys)\n")
_reanchor("c16-skip-equal", "        return bool(old != new)\n",
          "        return bool(str(old) != str(new))\n")
_reanchor("c04-scope-leak", """        self._ignore_stack.append([x.arg for x in named])
        node.body = self.visit(node.body)
        self._ignore_stack.pop()
        return node
""", """        self._ignore_stack.append([x.arg for x in named])
        node.body = self.visit(node.body)
        return node
""")
_reanchor("c04-comprehension", """    visit_DictComp = _visit_comprehension

    def visit_Call(self, node: ast.Call) -> Any:
        "If the rewritten call turns into an actual function, then we have to bail,\"""",
          """    visit_DictComp = _visit_comprehension
    visit_ListComp = ast.NodeTransformer.generic_visit

    def visit_Call(self, node: ast.Call) -> Any:
        "If the rewritten call turns into an actual function, then we have to bail,\"""")


M.append({"id": "c04-default-in-inner-scope", "prop": "C04",
          "what": "parameter defaults of a nested lambda are visited with the parameters already hidden (reverts the F28 repair)",
          "file": "func_adl/util_ast.py",
          "old": """        a.defaults = [self.visit(d) for d in a.defaults]
        a.kw_defaults = [d if d is None else self.visit(d) for d in a.kw_defaults]
        # Every kind of parameter hides a captured variable of the same name
        named = a.posonlyargs + a.args + a.kwonlyargs + [x for x in (a.vararg, a.kwarg) if x]
        self._ignore_stack.append([x.arg for x in named])
""",
          "new": """        # Every kind of parameter hides a captured variable of the same name
        named = a.posonlyargs + a.args + a.kwonlyargs + [x for x in (a.vararg, a.kwarg) if x]
        self._ignore_stack.append([x.arg for x in named])
        a.defaults = [self.visit(d) for d in a.defaults]
        a.kw_defaults = [d if d is None else self.visit(d) for d in a.kw_defaults]
"""})


M.append({"id": "c02-shared-arg-stack", "prop": "C02",
          "what": "every simplify_chained_calls object uses one module-level argument stack (balanced, so any sequential use is correct; two threads simplifying at once see each other's bindings)",
          "file": "func_adl/ast/function_simplifier.py",
          "old": "        self._arg_stack = argument_stack()\n        self._visit_depth = 0",
          "new": "        self._arg_stack = globals().setdefault(\"_SHARED_STACK\", argument_stack())\n        self._visit_depth = 0"})
M.append({"id": "c20-shared-scratch", "prop": "C20",
          "what": "calc_ast_hash builds the text in a module-level list that is emptied at the start of every call (exact for one thread; two threads hashing at once mix their texts)",
          "file": "func_adl/ast/ast_hash.py",
          "old": "    return hashlib.md5(ast.dump(a).encode(\"utf-8\")).hexdigest()",
          "new": "    del _PARTS[:]\n    for piece in ast.dump(a).split(\"(\"):\n        _PARTS.append(piece)\n    return hashlib.md5(\"(\".join(_PARTS).encode(\"utf-8\")).hexdigest()\n\n\n_PARTS = []"})


def main():
    args = [a for a in sys.argv[1:] if not a.startswith("--")]
    tests = "--no-tests" not in sys.argv
    todo = [m for m in M if not args or m["id"] in args or m["prop"] in args]
    out = []
    for m in todo:
        r = run_one(m, tests)
        out.append(r)
        print(json.dumps(r), flush=True)
    missed = [r["id"] for r in out if not r["caught"]]
    print(f"mutants: {len(out)} run, {len(out) - len(missed)} caught, missed: {missed}")
    if "--write" in sys.argv:
        with open(os.path.join(ROOT, "mutants", "results.json"), "w") as f:
            json.dump(out, f, indent=1)
    return 0 if not missed else 1


if __name__ == "__main__":
    sys.exit(main())
