#!/venv/bin/python
"""Check C11 (engine forest): --tier quick|thorough, --replay FILE."""
import os
import sys

sys.path.insert(0, os.path.dirname(os.path.dirname(os.path.abspath(__file__))))
from sim import core  # noqa: E402

core.bootstrap()
from sim import forest, runner  # noqa: E402

if __name__ == "__main__":
    sys.exit(runner.main("C11", forest, sys.argv[1:], **forest.BUDGETS["C11"]))
