#!/venv/bin/python
"""Check C02 (engine simplifier_node): --tier quick|thorough, --replay FILE."""
import os
import sys

sys.path.insert(0, os.path.dirname(os.path.dirname(os.path.abspath(__file__))))
from sim import core  # noqa: E402

core.bootstrap()
from sim import runner, simplifier_node  # noqa: E402

if __name__ == "__main__":
    sys.exit(runner.main("C02", simplifier_node, sys.argv[1:], **simplifier_node.BUDGETS["C02"]))
