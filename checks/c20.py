#!/venv/bin/python
"""Check C20 (engine hash_cluster): --tier quick|thorough, --replay FILE."""
import os
import sys

sys.path.insert(0, os.path.dirname(os.path.dirname(os.path.abspath(__file__))))
from sim import core  # noqa: E402

core.bootstrap()
from sim import hash_cluster, runner  # noqa: E402

if __name__ == "__main__":
    sys.exit(runner.main("C20", hash_cluster, sys.argv[1:], **hash_cluster.BUDGETS["C20"]))
