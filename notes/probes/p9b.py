import ast, logging
from typing import Iterable
from func_adl import EventDataset
from func_adl.type_based_replacement import func_adl_callback
logging.disable(logging.CRITICAL)
class Jet:
    def pt(self, scale: float = 1.0) -> float: ...
    def ok(self, req: int) -> bool: ...
boom = [False]
def cb(s, a):
    if boom[0]: raise RuntimeError("cb fault")
    return s.MetaData({"k": "v"}), a
@func_adl_callback(cb)
class Evt:
    def jets(self, name: str = "def") -> Iterable[Jet]: ...
    def met(self) -> float: ...
class DS(EventDataset):
    def __init__(self, t=None):
        super().__init__(t) if t else super().__init__()
    async def execute_result_async(self, a, title=None):
        return a
t = DS(Evt)
p = t.Select("lambda e: e.jets()")
snap = lambda: (ast.dump(t.query_ast), ast.dump(p.query_ast), p.item_type)
s0 = snap()
for name, f in [("where nonbool", lambda: p.Where("lambda js: js.Count()")),
                ("missing req", lambda: p.Select("lambda js: js.Select(lambda j: j.ok())")),
                ("cb raises", lambda: (boom.__setitem__(0, True), t.Select("lambda e: e.met()"))),
                ]:
    try:
        f(); print(name, "no exception")
    except Exception as e:
        print(name, type(e).__name__, str(e)[:70])
    print("  unchanged:", snap() == s0)
boom[0] = False
# repeated site with rebinding
cut = 1
out = []
for cut in (10, 20, 30):
    out.append(t.Where(lambda e: e.met() > cut))
print([ast.unparse(s.query_ast.args[1]) for s in out])
def fac():
    c = 5
    def op(s):
        return s.Where(lambda e: e.met() > c)
    def rebind(v):
        nonlocal c; c = v
    def unbind():
        nonlocal c; del c
    return op, rebind, unbind
op, rb, ub = fac()
a = op(t); rb(6); b = op(t); ub()
print(ast.unparse(a.query_ast.args[1]), ast.unparse(b.query_ast.args[1]))
try:
    c = op(t); print(ast.unparse(c.query_ast.args[1]))
except Exception as e: print(type(e).__name__, e)
