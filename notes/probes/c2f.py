import c2, sys, collections, ast
from func_adl.util_ast import function_call, lambda_build
orig_fresh = c2.fresh_mod
def patched(k):
    m = orig_fresh(k)
    def v(self, parent, selection):
        _, args = m.unpack_Call(parent)
        seq = args[0]; func_f = args[1]
        new_select = function_call("SelectMany", [func_f.body, self.visit(selection)])
        return function_call("SelectMany", [seq, lambda_build(func_f.args.args[0].arg, new_select)])
    m.simplify_chained_calls.visit_SelectMany_of_SelectMany = v
    import copy as _copy, re as _re
    def vn(self, name_node):
        r = self._arg_stack.lookup_name(name_node.id, default=None)
        return name_node if r is None else _copy.deepcopy(r)
    m.simplify_chained_calls.visit_Name = vn
    orig_visit = m.simplify_chained_calls.visit
    def top_visit(self, node):
        if not getattr(self, "_entered", False):
            self._entered = True
            mx = -1
            for n in ast.walk(node):
                nm = n.id if isinstance(n, ast.Name) else (n.arg if isinstance(n, ast.arg) else None)
                if nm:
                    mm = _re.fullmatch(r"arg_(\d+)", nm)
                    if mm: mx = max(mx, int(mm.group(1)))
            if mx >= m.argument_var_counter: m.argument_var_counter = mx + 1
        return orig_visit(self, node)
    m.simplify_chained_calls.visit = top_visit
    return m
c2.fresh_mod = patched
if __name__ == '__main__':
    res = collections.Counter(); ex = {}
    lo, hi, mode = int(sys.argv[1]), int(sys.argv[2]), sys.argv[3]
    for seed in range(lo, hi):
        try: r = c2.run(seed, mode == "arg")
        except RecursionError: r = ("RECURSION",)
        if r is None: res["nogen"] += 1; continue
        key = r[:3] if r[0] in ("SIMP-EXC","fine") else r[:1]; res[key] += 1; ex.setdefault(key, []).append((seed, r))
    for k, v in res.most_common(): print(v, k)
    for k in ex:
        if k[0] != "fine":
            for seed, r in ex[k][:6]:
                print(seed); [print("   ", str(x)[:600]) for x in r[1:]]
