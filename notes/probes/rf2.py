import rf, random, collections, sys
# monkeypatch: disable exec + QMD to surface other classes
orig_choice = random.Random.choice
class R(random.Random):
    def choice(self, seq):
        if isinstance(seq, list) and "QMD" in seq:
            seq = ["Select","Where","SelectMany","MetaData","term"]
        return super().choice(seq)
rf.random.Random = R
res = collections.Counter(); ex = {}; excs = collections.Counter()
for seed in range(int(sys.argv[1])):
    try: r = rf.run(seed)
    except Exception as e: r = ("HARNESS", type(e).__name__, str(e)[:80], [[0,0]])
    if r:
        key = (r[0], r[-1][-1][1:]) ; res[key]+=1; ex.setdefault(key,(seed,r))
for k,v in res.most_common(12): print(v,k,ex[k][0])
print(len(res))
