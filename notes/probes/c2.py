import ast, random, sys, copy, collections, importlib.util
from ev import Seq, Rec, D, evaluate, norm
import func_adl.ast.function_simplifier as real
from func_adl.ast.func_adl_ast_utils import change_extension_functions_to_calls
# types: 'int','bool', ('rec', kind) kind in evt/jet, ('seq', T), ('tup', [T..]), ('dict', {k:T})
ATTRS = {"evt": {"x": "int", "w": "int", "jets": ("seq", ("rec","jet"))}, "jet": {"pt": "int", "eta": "int"}}
class Gen:
    def __init__(self, rng, names):
        self.rng = rng; self.names = list(names); rng.shuffle(self.names)
    def fresh(self):
        self.k = getattr(self, 'k', 0) + 1
        return self.names.pop() if self.names and self.rng.random() < 0.6 else f'vv{self.k}'
    def expr(self, T, env, d):
        """generate expression text of type T using variables env: {name: type}"""
        r = self.rng
        cands = []
        # variable / attribute paths
        for n, t in env.items():
            for p, pt in self.paths(n, t, 2):
                if pt == T: cands.append(p)
        opts = []
        if cands: opts += ["var"]*3
        if T == "int":
            opts += ["const"]
            if d > 0: opts += ["add", "ifexp", "tupidx", "dictattr", "count", "first", "called"]
        elif T == "bool":
            if d > 0: opts += ["cmp", "cmp", "and"]
            else: opts += ["cmp0"]
        elif T[0] == "seq":
            if d > 0: opts += ["select", "where", "selectmany"]
        elif T[0] == "tup" or T[0] == "dict": opts += ["build"]
        elif T[0] == "rec":
            if d > 0: opts += ["first"]
        if not opts: return None
        for _ in range(6):
            o = r.choice(opts); res = self.build(o, T, env, d, cands)
            if res is not None: return res
        return None
    def paths(self, n, t, depth):
        yield n, t
        if depth == 0: return
        if isinstance(t, tuple) and t[0] == "rec":
            for a, at in ATTRS[t[1]].items(): yield from self.paths(f"{n}.{a}", at, depth-1)
        if isinstance(t, tuple) and t[0] == "tup":
            for i, et in enumerate(t[1]): yield from self.paths(f"{n}[{i}]", et, depth-1)
        if isinstance(t, tuple) and t[0] == "dict":
            for k, et in t[1].items(): yield from self.paths(f"{n}.{k}" if self.rng.random()<0.5 else f"{n}['{k}']", et, depth-1)
    def lam(self, argT, resT, env, d):
        n = self.fresh(); e2 = dict(env); e2[n] = argT
        b = self.expr(resT, e2, d)
        return None if b is None else f"(lambda {n}: {b})"
    def anyT(self, d, scalar=False):
        r = self.rng
        c = ["int", "int", ("rec","jet")] + ([] if scalar else [("tup", ["int", ("rec","jet")]), ("dict", {"a": "int", "b": "int"}), ("seq","int")])
        return r.choice(c)
    def seqsrc(self, elT, env, d):
        return self.expr(("seq", elT), env, d)
    def build(self, o, T, env, d, cands):
        r = self.rng; E = lambda t, dd=d-1: self.expr(t, env, dd)
        if o == "var": return r.choice(cands)
        if o == "const": return str(r.randint(0, 5))
        if o == "add":
            a, b = E("int"), E("int"); return None if None in (a,b) else f"({a} {r.choice('+-*')} {b})"
        if o == "ifexp":
            c, a, b = E("bool"), E("int"), E("int"); return None if None in (a,b,c) else f"({a} if {c} else {b})"
        if o in ("cmp","cmp0"):
            a, b = self.expr("int", env, max(d-1,0)), self.expr("int", env, 0); return None if None in (a,b) else f"({a} {r.choice(['>','<','==','>='])} {b})"
        if o == "and":
            a, b = E("bool"), E("bool"); return None if None in (a,b) else f"({a} {r.choice(['and','or'])} {b})"
        if o == "tupidx":
            other = E(self.anyT(d)); me = E(T)
            if None in (other, me): return None
            items = [other, me]; i = 1
            if r.random() < 0.5: items = [me, other]; i = 0
            br = r.choice(["()", "[]"])
            return f"({items[0]}, {items[1]})[{i}]" if br == "()" else f"[{items[0]}, {items[1]}][{i}]"
        if o == "dictattr":
            me, other = E(T), E("int")
            if None in (me, other): return None
            return "{'p': %s, 'q': %s}%s" % (me, other, r.choice([".p", "['p']"]))
        if o == "count":
            s = self.seqsrc(self.anyT(d, True), env, d-1); return None if s is None else f"Count({s})"
        if o == "first":
            s = self.seqsrc(T, env, d-1); return None if s is None else f"First({s})"
        if o == "called":
            aT = self.anyT(d, True); a = E(aT); l = self.lam(aT, T, env, d-1)
            return None if None in (a, l) else f"{l}({a})"
        if o == "build":
            if T[0] == "tup":
                es = [E(t) for t in T[1]]; return None if None in es else "(" + ", ".join(es) + ",)"
            es = {k: E(t) for k, t in T[1].items()}; return None if None in es.values() else "{" + ", ".join(f"'{k}': {v}" for k, v in es.items()) + "}"
        elT = T[1]
        form = r.choice(["f", "m"])
        def call(op, s, l): return f"{op}({s}, {l})" if form == "f" else f"{s}.{op}({l})"
        if o == "select":
            inT = self.anyT(d); s = self.seqsrc(inT, env, d-1)
            if s is None: return None
            l = self.lam(inT, elT, env, d-1); return None if l is None else call("Select", s, l)
        if o == "where":
            s = self.seqsrc(elT, env, d-1)
            if s is None: return None
            l = self.lam(elT, "bool", env, d-1); return None if l is None else call("Where", s, l)
        if o == "selectmany":
            inT = r.choice([("rec","evt"), ("rec","jet"), "int", ("tup", ["int", ("seq", ("rec","jet"))])]); s = self.seqsrc(inT, env, d-1)
            if s is None: return None
            l = self.lam(inT, ("seq", elT), env, d-1); return None if l is None else call("SelectMany", s, l)
def gen_query(rng, names):
    g = Gen(rng, names)
    for _ in range(50):
        T = ("seq", g.anyT(3))
        q = g.expr(T, {"ds": ("seq", ("rec","evt"))}, rng.randint(2, 5))
        if q and q != "ds" and ("Select" in q or "Where" in q): return q
    return None
def data(rng):
    return Seq([Rec(x=rng.randint(0,4), w=rng.randint(0,4), jets=Seq([Rec(pt=rng.randint(0,5), eta=rng.randint(-2,2)) for _ in range(rng.randint(0,3))])) for _ in range(rng.randint(0,4))])
def fresh_mod(k):
    spec = importlib.util.spec_from_file_location(f"_fs_{k}", real.__file__); m = importlib.util.module_from_spec(spec); spec.loader.exec_module(m); return m
def unshare(n):
    if isinstance(n, ast.AST):
        kw = {}
        for f in n._fields:
            if hasattr(n, f): kw[f] = unshare(getattr(n, f))
        if isinstance(n, (ast.Name, ast.Attribute, ast.Subscript, ast.Tuple, ast.List)) and "ctx" not in kw: kw["ctx"] = ast.Load()
        return type(n)(**kw)
    if isinstance(n, list): return [unshare(x) for x in n]
    return n
def ev(q_ast, ds):
    try: return ("ok", norm(evaluate(unshare(q_ast), ds)))
    except RecursionError: raise
    except BaseException as ex: return ("exc", type(ex).__name__, str(ex)[:60])
def run(seed, argnames):
    rng = random.Random(seed)
    letters = [a+b for a in "abcdefghjkmnpqrstuvwyz" for b in ("", "1")]
    names = letters + ([f"arg_{i}" for i in range(0, 12)] if argnames else [])
    mod = fresh_mod(seed % 7); mod.argument_var_counter = rng.choice([0,0,1,2,3,5,8]) if argnames else rng.randint(0, 50)
    q = gen_query(rng, names)
    if q is None: return None
    a = change_extension_functions_to_calls(ast.parse(q, mode="eval").body)
    dss = [data(rng) for _ in range(3)] + [Seq([])]
    refs = [ev(a, d) for d in dss]
    try:
        s = mod.simplify_chained_calls().visit(copy.deepcopy(a))
        st = ast.unparse(s)
    except Exception as ex:
        return ("SIMP-EXC", type(ex).__name__, str(ex)[:70], q)
    for d, r in zip(dss, refs):
        if r[0] != "ok": continue
        g = ev(s, d)
        if g[:2] == ("exc", "Budget"): continue
        if g != r: return ("VALUE", q, st, r, g)
    return ("fine", any(r[0]=="ok" for r in refs), q != st)
if __name__ == "__main__":
    res = collections.Counter(); ex = {}
    for seed in range(int(sys.argv[1])):
        try: r = run(seed, sys.argv[2] == "arg")
        except RecursionError: r = ("RECURSION",)
        if r is None: res["nogen"] += 1; continue
        key = r[:3] if r[0] in ("SIMP-EXC","fine") else r[:1]; res[key] += 1; ex.setdefault(key, (seed, r))
    for k, v in res.most_common(): print(v, k, "" if k[0]=="fine" else ex[k])
