import asyncio, heapq, random, ast, threading
from asyncio import base_events, events

class Clock:
    def __init__(self): self.now = 0.0

class SimLoop(asyncio.BaseEventLoop):
    """virtual time loop: no selector, no real sleeping"""
    def __init__(self, clock, rng, trace):
        super().__init__()
        self._clock = clock; self._rng = rng; self._trace = trace
        self._selector = None
    def time(self): return self._clock.now
    def _process_events(self, ev): pass
    def _write_to_self(self): pass
    def _run_once(self):
        # drop cancelled timers
        while self._scheduled and self._scheduled[0]._cancelled:
            h = heapq.heappop(self._scheduled); h._scheduled = False
        if not self._ready and self._scheduled:
            # jump the clock
            when = self._scheduled[0]._when
            if when > self._clock.now: self._clock.now = when
        end = self._clock.now + self._clock_resolution
        while self._scheduled and self._scheduled[0]._when < end:
            h = heapq.heappop(self._scheduled); h._scheduled = False
            if not h._cancelled: self._ready.append(h)
        if not self._ready and not self._scheduled:
            raise RuntimeError("deadlock: nothing runnable")
        # seeded choice of ONE ready handle
        n = len(self._ready)
        if n:
            i = self._rng.randrange(n)
            self._ready.rotate(-i); h = self._ready.popleft(); self._ready.rotate(i)
            if not h._cancelled:
                self._trace.append(("run", round(self._clock.now,6), i, n))
                h._run()

class SimPolicy(asyncio.DefaultEventLoopPolicy):
    def __init__(self, clock, rng, trace):
        super().__init__(); self.c=clock; self.r=rng; self.t=trace
    def new_event_loop(self): return SimLoop(self.c, self.r, self.t)

from func_adl import EventDataset
log=[]
class DS(EventDataset):
    def __init__(s,n,rng): super().__init__(); s.n=n; s.rng=rng
    async def execute_result_async(self, a, title=None):
        d = self.rng.choice([0, 1, 5, 60, 3600])
        log.append(("start", self.n, title, asyncio.get_running_loop().time()))
        await asyncio.sleep(d)
        log.append(("end", self.n, title, asyncio.get_running_loop().time()))
        return (self.n, title)

def run(seed):
    global log; log=[]
    rng = random.Random(seed); clock=Clock(); trace=[]
    asyncio.set_event_loop_policy(SimPolicy(clock, rng, trace))
    ds=[DS(i,rng) for i in range(3)]
    async def main():
        ts=[asyncio.ensure_future(ds[i%3].Select(f"lambda e: e.x{i}").value_async(title=str(i))) for i in range(6)]
        # sync value() from inside running loop -> make_sync thread -> new SimLoop via policy
        r = ds[0].Select("lambda e: e.q").value(title="sync")
        return r, await asyncio.gather(*ts)
    loop = asyncio.new_event_loop()
    try:
        out = loop.run_until_complete(main())
    finally:
        loop.close()
    return out, log, len(trace), clock.now
a = run(1); b = run(1); c = run(2)
print(a==b, a!=c); print(a[0]); print([l for l in a[1] if l[0]=="end"]); print(a[2], a[3])
