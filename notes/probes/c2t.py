import c2f, c2, sys, signal, time, collections
class TO(Exception): pass
def h(*a): raise TO()
signal.signal(signal.SIGALRM, h)
lo, hi, mode = int(sys.argv[1]), int(sys.argv[2]), sys.argv[3]
res = collections.Counter(); ex = {}
t0=time.time()
for seed in range(lo, hi):
    if seed % 250 == 0: print("at", seed, round(time.time()-t0,1), flush=True)
    signal.alarm(5)
    try:
        r = c2.run(seed, mode=="arg")
    except TO: r = ("TIMEOUT",)
    except RecursionError: r = ("RECURSION",)
    finally: signal.alarm(0)
    if r is None: res["nogen"]+=1; continue
    key = r[:3] if r[0] in ("SIMP-EXC","fine") else r[:1]; res[key]+=1; ex.setdefault(key, []).append((seed, r))
print(time.time()-t0)
for k,v in res.most_common(): print(v,k)
for k in ex:
    if k[0] != "fine":
        for seed, r in ex[k][:8]:
            print(seed); [print("   ", str(x)[:500]) for x in r[1:]]
