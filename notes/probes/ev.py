import ast, copy
class Budget(BaseException): pass
WORK = [0]
def tick(n=1):
    WORK[0] += n
    if WORK[0] > 200000: raise Budget()
def _t(it):
    for x in it:
        tick(); yield x
class Seq(list):
    def Select(self, f): return Seq(f(x) for x in _t(self))
    def Where(self, f): return Seq(x for x in _t(self) if f(x))
    def SelectMany(self, f): return Seq(y for x in _t(self) for y in _t(f(x)))
    def First(self): return self[0]
    def Count(self): return len(self)
class Rec:
    def __init__(self, **kw): self.__dict__.update(kw)
    def __repr__(self): return f"Rec({self.__dict__})"
    def __eq__(self, o): return isinstance(o, Rec) and self.__dict__ == o.__dict__
class D(dict):
    def __getattr__(self, k):
        try: return self[k]
        except KeyError: raise AttributeError(k)
ENV = dict(Select=lambda s,f: Seq(s).Select(f), Where=lambda s,f: Seq(s).Where(f), SelectMany=lambda s,f: Seq(s).SelectMany(f),
           First=lambda s: s[0], Count=lambda s: len(s))
class DictToD(ast.NodeTransformer):
    def visit_Dict(self, node):
        self.generic_visit(node)
        return ast.Call(ast.Name('D_', ast.Load()), [node], [])
    def visit_List(self, node):
        self.generic_visit(node)
        return ast.Call(ast.Name('Seq_', ast.Load()), [node], [])
def evaluate(a, ds):
    a = DictToD().visit(copy.deepcopy(a))
    e = ast.Expression(a); ast.fix_missing_locations(e)
    env = dict(ENV); env['ds']=ds; env['D_']=D; env['Seq_']=Seq
    WORK[0] = 0
    return eval(compile(e, "<q>", "eval"), env)
def norm(v):
    if isinstance(v, (list, tuple)): return [norm(x) for x in v]
    if isinstance(v, dict): return {k: norm(x) for k,x in v.items()}
    return v
