import c12, sys
from func_adl.object_stream import ObjectStream
orig = ObjectStream._get_executor
cache = {}
def memo(self, executor=None):
    if executor is not None: return executor
    if "e" not in cache: cache["e"] = orig(self, None)
    return cache["e"]
ObjectStream._get_executor = memo
bad = 0
for seed in range(200):
    cache.clear()
    v = c12.run(seed)[0]
    if v: bad += 1
print("mutant memo-executor: runs flagged", bad, "/200")
