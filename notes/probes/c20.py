import ast, random, itertools, copy, sys, logging
import rf, c2
from func_adl.ast.ast_hash import calc_ast_hash
logging.disable(logging.CRITICAL)
def canon(n):
    if isinstance(n, ast.AST):
        out = [type(n).__name__]
        for f in n._fields:
            if not hasattr(n, f): continue
            v = getattr(n, f)
            if v is None and getattr(type(n), f, ...) is None: continue
            out.append((f, canon(v)))
        return tuple(out)
    if isinstance(n, list): return ("list",) + tuple(canon(x) for x in n)
    return ("const", type(n).__name__, repr(n))
asts = []
# library-built streams
rng = random.Random(1)
for seed in range(150):
    rngl = random.Random(seed)
    d = rf.DS(rf.Evt) if seed % 2 else rf.DS()
    s = d
    for _ in range(rngl.randint(1, 4)):
        k = rngl.choice(["Select", "Where", "SelectMany", "MetaData", "QMD", "term"])
        try:
            if k in ("Select","Where","SelectMany"):
                src = rngl.choice({"Select":rf.SEL,"Where":rf.WH,"SelectMany":rf.SM}[k]); s = getattr(s, k)(src if rngl.random()<0.5 else rf.mk(src))
            elif k == "MetaData": s = s.MetaData({"x": rngl.randint(0, 1)})
            elif k == "QMD": s = s.QMetaData({"q": rngl.randint(0, 5)})
            else: s = s.AsAwkwardArray(["c"])
        except Exception: pass
        asts.append(s.query_ast)
# simplifier outputs + originals
for seed in range(150):
    r = random.Random(seed); q = c2.gen_query(r, ["a","b","c","d","e","f","g"])
    if q:
        a = ast.parse(q, mode="eval").body; asts.append(a)
        try: asts.append(c2.real.simplify_chained_calls().visit(copy.deepcopy(a)))
        except Exception: pass
        asts.append(ast.parse(q.replace("(lambda", "( lambda"), mode="eval").body)  # positions differ
print(len(asts))
H = [calc_ast_hash(a) for a in asts]; C = [canon(a) for a in asts]
bad = 0; eqpairs = 0
for i, j in itertools.combinations(range(len(asts)), 2):
    if (H[i] == H[j]) != (C[i] == C[j]): bad += 1; print("MISMATCH", i, j, ast.dump(asts[i])[:150], "|||", ast.dump(asts[j])[:150])
    if C[i] == C[j]: eqpairs += 1
print("pairs", len(asts)*(len(asts)-1)//2, "canon-equal pairs", eqpairs, "mismatches", bad)
