import ast, random, logging, sys, linecache, types, collections
from func_adl import EventDataset
from ev import Seq, Rec
logging.disable(logging.CRITICAL)
class DS(EventDataset):
    async def execute_result_async(self, a, title=None): return a
samples = [Rec(a=i, b=2*i+1, jets=Seq([Rec(pt=j*3+i, eta=j-1) for j in range(i % 4)])) for i in range(6)]
NAMES = ["G0","G1","K0.A","K0.In.B","cfg.m","c0","c1"]
def body(rng, names, j="j", k="k", e="e"):
    v = lambda: rng.choice([n for n in names if n.split(".")[0] not in (j,k,e)] )
    forms = [
      lambda: f"{e}.a + {v()}", lambda: f"{e}.a > {v()} + {v()}", lambda: f"{e}.b * {v()} if {e}.a > {v()} else {v()}",
      lambda: f"{e}.jets.Select(lambda {j}: {j}.pt * {v()} + {e}.b)", lambda: f"{e}.jets.Where(lambda {j}: {j}.pt > {v()}).Count()",
      lambda: f"[{j}.pt + {v()} for {j} in {e}.jets if {j}.eta < {v()}]", lambda: f"{e}.jets.Select(lambda {j}: {e}.jets.Where(lambda {k}: {k}.pt > {j}.pt + {v()}).Count())",
      lambda: f"[[{k}.pt + {j}.pt + {v()} for {k} in {e}.jets] for {j} in {e}.jets]",
      lambda: f"({e}.a, {v()})[1] + {e}.b", lambda: f"(lambda {k}: {k} + {v()})({e}.a)",
    ]
    return rng.choice(forms)()
def render(rng):
    src = "import cfg\nG0 = 3\nG1 = 2.5\nclass K0:\n    A = 4\n    class In:\n        B = 7\n"
    sites = []
    for k in range(6):
        sh = rng.choice([None, "e", "j", "k"])
        kw = {}
        if sh: kw[sh] = rng.choice(["G0","G1","c0","K0","cfg"])
        b = body(rng, NAMES, **kw)
        head = "lambda " + kw.get("e", "e")
        src += f"def make_{k}():\n    c0 = 9\n    c1 = 11\n    def site(s):\n        return s.Select({head}: {b})\n    def rb(n, v):\n        nonlocal c0, c1\n        if n == 'c0': c0 = v\n        else: c1 = v\n    def ref():\n        return ({head}: {b})\n    return site, rb, ref\n"
        sites.append((k, head, b, sh))
    return src, sites
def run(seed):
    rng = random.Random(seed)
    cfg = types.ModuleType("cfg"); cfg.m = 6; sys.modules["cfg"] = cfg
    src, sites = render(rng)
    fn = f"<simdisk>/c_{seed}.py"; linecache.cache[fn] = (len(src), None, src.splitlines(True), fn)
    m = types.ModuleType(f"c_{seed}"); exec(compile(src, fn, "exec"), m.__dict__)
    d = DS(); built = []
    fns = {k: getattr(m, f"make_{k}")() for k,_,_,_ in sites}
    def ev(lam):
        f = eval(compile(ast.Expression(ast.parse(ast.unparse(lam), mode="eval").body), "<l>", "eval"), {"__builtins__": {}, "Seq": Seq})
        out = []; import ev as _ev; _ev.WORK[0] = 0
        for s in samples:
            try: out.append(norm(f(s)))
            except Exception as ex: out.append("EXC:"+type(ex).__name__+str(ex)[:40])
        return out
    def norm(v): return [norm(x) for x in v] if isinstance(v,(list,tuple)) else v
    for step in range(12):
        if rng.random() < 0.5:
            k, head, b, sh = rng.choice(sites); site, rb, ref = fns[k]
            rf = ref(); refout = []
            for s in samples:
                try: refout.append(norm(rf(s)))
                except Exception as ex: refout.append("EXC:"+type(ex).__name__+str(ex)[:40])
            try: st = site(d)
            except Exception as ex: return ("RAISE", type(ex).__name__, str(ex)[:60], sh, b)
            got = ev(st.query_ast.args[1])
            got = [g if not (isinstance(r, str) and r.startswith("EXC:")) else r for g, r in zip(got, refout)]
            if got != refout: return ("VALUE", sh, b, ast.unparse(st.query_ast.args[1]), refout[:3], got[:3])
            built.append((st, refout, b))
        else:
            n = rng.choice(NAMES); v = rng.choice([1, 5, 2.5, 40])
            if n in ("G0","G1"): setattr(m, n, v)
            elif n == "K0.A": m.K0.A = v
            elif n == "K0.In.B": m.K0.In.B = v
            elif n == "cfg.m": cfg.m = v
            else:
                for k in fns: fns[k][1](n, v)
        for st, refout, b in built:
            g2 = [g if not (isinstance(r, str) and r.startswith("EXC:")) else r for g, r in zip(ev(st.query_ast.args[1]), refout)]
            if g2 != refout: return ("DRIFT", b)
    return None
res = collections.Counter(); ex = {}
for seed in range(int(sys.argv[1])):
    r = run(seed)
    if r:
        key = r[:2] if r[0]!="RAISE" else r[:4]; res[key]+=1; ex.setdefault(key, (seed, r))
for k,v in res.most_common(15): print(v, k, ex[k])
