import ast, copy
from ev import *
from func_adl.ast import function_simplifier as fs
from func_adl.ast.function_simplifier import simplify_chained_calls
from func_adl import EventDataset
from func_adl.ast.meta_data import lookup_query_metadata
ds = Seq([Rec(x=i, w=10*i, jets=Seq([Rec(pt=j+i, eta=j) for j in range(i)])) for i in range(4)])
q = "Select(ds, lambda arg_1: Select(Select(arg_1.jets, lambda j: j.pt*arg_1.w), lambda p: p+1))"
for c in (0, 1, 2, 20):
    fs.argument_var_counter = c
    a = ast.parse(q, mode='eval').body
    ref = norm(evaluate(a, ds))
    s = simplify_chained_calls().visit(copy.deepcopy(a))
    s2 = ast.parse(ast.unparse(s), mode='eval').body
    try: ok = norm(evaluate(s2, ds)) == ref
    except Exception as ex: ok = repr(ex)
    print(c, ast.unparse(s), ok)
# F1 via QMetaData shared args list
class DS(EventDataset):
    async def execute_result_async(self, a, title=None): return a
d = DS()
p = d.MetaData({}).Select("lambda e: e.x")
sib = p.QMetaData({'a': 1})
before = (ast.dump(p.query_ast), ast.dump(sib.query_ast))
sib.value()
after = (ast.dump(p.query_ast), ast.dump(sib.query_ast))
print("parent changed by executing QMetaData sibling:", before[0] != after[0])
# received AST keeps _eds_object
r = d.MetaData({}).Select("lambda e: e.x").value()
from func_adl import find_EventDataset
print(find_EventDataset(r)._eds_object is d)
