import ast, asyncio, math, logging
from typing import Iterable, Optional
from func_adl import EventDataset, ObjectStream
from func_adl.type_based_replacement import func_adl_callback
class Jet:
    def pt(self, scale: float = 1.0) -> float: ...
def cb(s, a):
    return s.MetaData({"k": "v"}), a
@func_adl_callback(cb)
class Evt:
    def jets(self, name: str = "def") -> Iterable[Jet]: ...
class DS(EventDataset):
    def __init__(self, t=None):
        super().__init__(t) if t else super().__init__()
    async def execute_result_async(self, a, title=None):
        return a
u = DS(); t = DS(Evt)
lam = ast.parse("lambda e: e.jets().Select(lambda j: j.pt())").body[0].value
lam_before = ast.unparse(lam)
a = u.Select(lam)
a_before = ast.unparse(a.query_ast)
b = t.Select(lam)
print("lam before:", lam_before)
print("lam after :", ast.unparse(lam))
print("A before:", a_before)
print("A after :", ast.unparse(a.query_ast))
print("B       :", ast.unparse(b.query_ast))
# second typed use
c = t.Select(lam)
print("C       :", ast.unparse(c.query_ast))
# sugar in shared AST
lam2 = ast.parse("lambda e: [j.pt() for j in e.jets()]").body[0].value
a2 = u.Select(lam2); x = ast.unparse(a2.query_ast)
b2 = t.Select(lam2)
print(x); print(ast.unparse(a2.query_ast)); print(ast.unparse(b2.query_ast)); print(ast.unparse(lam2))
