import ast, random, logging, sys, copy, dataclasses
from typing import Iterable, NamedTuple
from func_adl import EventDataset, ObjectStream, func_adl_callable
from func_adl.type_based_replacement import func_adl_callback
from func_adl.ast.meta_data import lookup_query_metadata
logging.disable(logging.CRITICAL)
def cbm(s, a): return s.MetaData({"m": "jetcb"}), a
def cbc(s, a): return s.MetaData({"c": "evt"}), a
class Jet:
    def pt(self, scale: float = 1.0) -> float: ...
    @func_adl_callback(cbm)
    def eta(self, a: int = 1, b: int = 2) -> float: ...
@func_adl_callback(cbc)
class Evt:
    def jets(self, name: str = "def") -> Iterable[Jet]: ...
    def met(self) -> float: ...
@func_adl_callable()
def fsq(x: float, p: int = 2) -> float: ...
@dataclasses.dataclass
class DC:
    a: float
    b: float
class DS(EventDataset):
    def __init__(self, t=None):
        super().__init__(t) if t else super().__init__()
    async def execute_result_async(self, a, title=None):
        return a
SEL = ["lambda e: e.jets()", "lambda e: e.jets().Select(lambda j: j.pt())", "lambda e: [j.eta(b=3) for j in e.jets() if j.pt() > 1]",
       "lambda e: (e.met(), e.jets())", "lambda e: {'a': e.met(), 'b': e.jets().Count()}", "lambda e: fsq(e.met())", "lambda e: DC(e.met(), b=e.met()).a",
       "lambda e: e.jets().Where(lambda j: j.pt() > 2).Select(lambda j: j.eta())", "lambda e: e.met() + 1"]
WH = ["lambda e: e.met() > 1", "lambda e: e.jets().Count() > 1", "lambda e: fsq(e.met()) > 2 and e.met() < 5"]
SM = ["lambda e: e.jets()", "lambda e: e.jets().Select(lambda j: j.pt())"]
def mk(s):
    a = ast.parse(s).body[0].value
    # replace DC name by constant like capture does
    class R(ast.NodeTransformer):
        def visit_Name(self, n): return ast.Constant(value=DC) if n.id == "DC" else n
    return R().visit(a)
def run(seed):
    rng = random.Random(seed)
    dss = [DS(), DS(Evt)]
    shared = {s: mk(s) for s in SEL+WH+SM}
    live = list(dss); snaps = {}; md = {id(d): {} for d in dss}
    def snap(s): return (ast.dump(s.query_ast), repr(s.item_type))
    for d in dss: snaps[id(d)] = snap(d)
    hist = []
    for step in range(rng.randint(3, 25)):
        p = rng.choice(live); k = rng.choice(["Select","Where","SelectMany","MetaData","MetaData0","QMD","term","exec"])
        hist.append((live.index(p), k))
        try:
            if k in ("Select","Where","SelectMany"):
                src = rng.choice({"Select":SEL,"Where":WH,"SelectMany":SM}[k])
                mode = rng.choice(["str","ast","shared"]); hist[-1] += (src, mode)
                arg = src if mode=="str" else (mk(src) if mode=="ast" else shared[src])
                n = getattr(p, k)(arg)
            elif k == "MetaData": n = p.MetaData({"x": rng.randint(0,3)})
            elif k == "MetaData0": n = p.MetaData({})
            elif k == "QMD":
                d = {rng.choice("ab"): rng.randint(1,3) for _ in range(rng.randint(1,2))}; hist[-1] += (d,)
                n = p.QMetaData(d)
                m = dict(md[id(p)]); m.update(d); md[id(n)] = m
            elif k == "term": n = p.AsAwkwardArray(["c"])
            else:
                p.value(); n = None
        except Exception as ex:
            hist[-1] += ("EXC "+type(ex).__name__,); n = None
        if n is not None:
            live.append(n); snaps[id(n)] = snap(n); md.setdefault(id(n), dict(md[id(p)]))
        for i, s in enumerate(live):
            if snap(s) != snaps[id(s)]:
                return ("C11", i, hist)
            for key in "ab":
                if lookup_query_metadata(s, key) != md[id(s)].get(key):
                    return ("C16", i, key, lookup_query_metadata(s, key), md[id(s)].get(key), hist)
    return None
if __name__ == "__main__":
    import collections
    res = collections.Counter(); ex = {}
    for seed in range(int(sys.argv[1])):
        try: r = run(seed)
        except Exception as e:
            r = ("HARNESS", type(e).__name__, str(e)[:80])
        if r:
            key = (r[0], r[-1][-1][1] if r[0] in ("C11","C16") else r[1:]); res[key] += 1; ex.setdefault(key, (seed, r))
    for k, v in res.most_common(): print(v, k, ex[k][0])
