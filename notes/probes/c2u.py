import c2, sys, signal, time, collections
lo, hi, mode = int(sys.argv[1]), int(sys.argv[2]), sys.argv[3]
res = collections.Counter(); ex = {}
for seed in range(lo, hi):
    try: r = c2.run(seed, mode=="arg")
    except RecursionError: r = ("RECURSION",)
    if r is None: res["nogen"]+=1; continue
    key = r[:3] if r[0] in ("SIMP-EXC","fine") else r[:1]; res[key]+=1; ex.setdefault(key, []).append((seed, r))
for k,v in res.most_common(): print(v,k)
for k in ex:
    if k[0] != "fine":
        for seed, r in ex[k][:4]:
            print(seed); [print("   ", str(x)[:400]) for x in r[1:]]
