import asyncio, heapq, random, ast, sys, time, logging, collections, threading
import make_it_sync.func_wrapper as fw
from func_adl import EventDataset, find_EventDataset
logging.disable(logging.CRITICAL)
class Clock:
    def __init__(self): self.now = 0.0
class Deadlock(Exception): pass
class SimLoop(asyncio.BaseEventLoop):
    def __init__(self, clock, rng, trace):
        super().__init__(); self._clock=clock; self._rng=rng; self._trace=trace; self.steps=0
    def time(self): return self._clock.now
    def _process_events(self, ev): pass
    def _write_to_self(self): pass
    def _run_once(self):
        while self._scheduled and self._scheduled[0]._cancelled:
            h = heapq.heappop(self._scheduled); h._scheduled = False
        if not self._ready and self._scheduled:
            when = self._scheduled[0]._when
            if when > self._clock.now: self._clock.now = when
        end = self._clock.now + self._clock_resolution
        while self._scheduled and self._scheduled[0]._when < end:
            h = heapq.heappop(self._scheduled); h._scheduled = False
            if not h._cancelled: self._ready.append(h)
        if not self._ready:
            if not self._scheduled: raise Deadlock()
            return
        n = len(self._ready); i = self._rng.randrange(n)
        self._ready.rotate(-i); h = self._ready.popleft(); self._ready.rotate(i)
        self.steps += 1
        if self.steps > 20000: raise Deadlock("step cap")
        if not h._cancelled:
            self._trace.append((round(self._clock.now,6), i, n)); h._run()
class SimPolicy(asyncio.DefaultEventLoopPolicy):
    def __init__(self, c, r, t): super().__init__(); self.a=(c,r,t)
    def new_event_loop(self): return SimLoop(*self.a)
class SimFuture:
    def __init__(self): self.r=None; self.e=None
    def result(self):
        if self.e: raise self.e
        return self.r
class SimThreadPool:
    def __init__(self, max_workers=1): pass
    def submit(self, fn, *a, **k):
        f = SimFuture()
        def run():
            try: f.r = fn(*a, **k)
            except BaseException as e: f.e = e
        t = threading.Thread(target=run); t.start(); t.join(); return f
fw.ThreadPoolExecutor = SimThreadPool
def strip(n):
    if isinstance(n, list): return [strip(x) for x in n]
    if not isinstance(n, ast.AST): return n
    if isinstance(n, ast.Call) and isinstance(n.func, ast.Name) and n.func.id=="MetaData" and len(n.args)==2 and isinstance(n.args[1], ast.Dict) and not n.args[1].keys:
        return strip(n.args[0])
    return type(n)(**{f: strip(getattr(n, f)) for f in n._fields if hasattr(n, f)})
class Token: pass
def run(seed):
    rng = random.Random(seed); clock = Clock(); trace = []; hist = []
    asyncio.set_event_loop_policy(SimPolicy(clock, random.Random(seed*7+1), trace))
    reg = {}; plans = {}
    class DS(EventDataset):
        def __init__(s, n): super().__init__(); s.n = n; reg[n] = s
        async def execute_result_async(self, a, title=None):
            plan = plans.get(title, ("ok", 0.0))
            hist.append(("start", self.n, self is reg[self.n], ast.dump(a), find_EventDataset(a)._eds_object is reg[self.n], title))
            try:
                if plan[0] == "stall": await asyncio.get_running_loop().create_future()
                await asyncio.sleep(plan[1])
                if plan[0] == "error": raise plan[2]
                tok = Token(); plans[("tok", title)] = tok; return tok
            except asyncio.CancelledError:
                hist.append(("cancelled", self.n, title)); raise
            finally: hist.append(("end", self.n, title))
    dss = [DS(i) for i in range(rng.randint(1, 3))]
    live = [(d, d.n) for d in dss]
    LAMS = ["lambda e: e.x", "lambda e: e.jets.Select(lambda j: j.pt)", "lambda e: e.x > 1"]
    for _ in range(rng.randint(2, 10)):
        p, root = rng.choice(live); k = rng.choice(["Select", "Where", "MetaData", "MetaData0", "QMD", "term"])
        n0 = len(hist)
        if k == "Select": n = p.Select(rng.choice(LAMS[:2]))
        elif k == "Where": n = p.Where(LAMS[2])
        elif k == "MetaData": n = p.MetaData({"a": 1})
        elif k == "MetaData0": n = p.MetaData({})
        elif k == "QMD": n = p.QMetaData({"q": rng.randint(1, 3)})
        else: n = p.AsAwkwardArray(["c"])
        assert len(hist) == n0, "executor ran during build"
        assert find_EventDataset(n.query_ast)._eds_object is reg[root]
        live.append((n, root))
    viol = []
    calls = {}
    async def ov_exec(a, title):
        hist.append(("start", "OV", True, ast.dump(a), True, title)); await asyncio.sleep(plans[title][1]); tok = Token(); plans[("tok", title)] = tok; return tok
    async def one(cid, s, root, title, override, mode):
        try:
            if mode == "sync": r = s.value(title=title, executor=ov_exec if override else None)
            else: r = await s.value_async(title=title, executor=ov_exec if override else None)
            return ("ret", r)
        except asyncio.CancelledError: return ("cancelled",)
        except BaseException as e: return ("exc", e)
    async def main():
        tasks = []
        for cid in range(rng.randint(1, 8)):
            s, root = rng.choice(live); title = f"t{cid}"; override = rng.random() < 0.15
            kind = rng.choice(["ok", "ok", "error", "stall"]) if not override else "ok"
            lat = rng.choice([0, 0.001, 1, 60, 3600])
            err = KeyError(title)
            plans[title] = (kind, lat, err)
            mode = "sync" if (rng.random() < 0.2 and kind != "stall") else "async"
            calls[title] = (root if not override else "OV", ast.dump(strip(s.query_ast)))
            t = asyncio.ensure_future(one(cid, s, root, title, override, mode)); tasks.append((title, t, kind, err))
            if kind == "stall" or rng.random() < 0.15:
                asyncio.get_running_loop().call_later(rng.choice([0.5, 30, 4000]), t.cancel)
                plans[("maycancel", title)] = True
        out = []
        for title, t, kind, err in tasks:
            try: out.append((title, await t, kind, err))
            except asyncio.CancelledError: out.append((title, ("cancelled-outer",), kind, err))
        return out
    loop = asyncio.new_event_loop()
    try: out = loop.run_until_complete(main())
    except Deadlock as e: return [("liveness", str(e))], 0, 0
    finally: loop.close()
    starts = collections.defaultdict(list)
    for h in hist:
        if h[0] == "start": starts[h[5]].append(h)
    for title, res, kind, err in out:
        st = starts.get(title, [])
        exp_peer, exp_dump = calls[title]
        cancelled = res[0].startswith("cancelled")
        if len(st) != 1 and not (cancelled and len(st) == 0): viol.append(("count", title, len(st))); continue
        if st:
            h = st[0]
            if h[1] != exp_peer or not h[2]: viol.append(("route", title))
            if h[3] != exp_dump: viol.append(("ast", title))
            if not h[4]: viol.append(("root", title))
        if res[0] == "ret" and res[1] is not plans.get(("tok", title)): viol.append(("result", title))
        if res[0] == "exc" and res[1] is not err: viol.append(("exception", title, repr(res[1])))
        if res[0] == "ret" and kind == "error": viol.append(("swallowed", title))
        if cancelled and not plans.get(("maycancel", title)): viol.append(("spurious-cancel", title))
    order = [h[2] for h in hist if h[0]=="end"]
    return viol, len(trace), clock.now, order
if __name__ == "__main__":
    t0 = time.time(); c = collections.Counter(); steps = 0; reorder = 0
    for seed in range(int(sys.argv[1])):
        r = run(seed)
        v = r[0]; steps += r[1]
        if v: c[str(v[0][0])] += 1; print(seed, v[:3])
        if len(r) > 3 and r[3] != sorted(r[3], key=lambda t: int(t[1:])): reorder += 1
    print("runs/s", int(sys.argv[1])/(time.time()-t0), "steps", steps, "reordered runs", reorder, dict(c))
    a = run(5); b = run(5); print("deterministic:", a == b)
